"""C17 — cabextract's modes agree with the archive and with each other."""
import random, os, shutil, subprocess, tempfile, hashlib, fnmatch, calendar, re
import vlib
from vlib import cabfmt, gen
from props.common import proof_broken

EXPLANATION = ("Theorems: every mode of the per-member loop acts on exactly filter(matches, members) in order; listing never fails; exit status zero iff no selected member "
  "failed; permission bits = 0444 | EXEC?0111 | !RDONLY?0222 masked by the umask for all attribute combinations and all 512 umasks.  Tie: permission bits and mktime "
  "fields of the extracted port vs the files the binary creates.  Search: the binary built from the tree on generated cabinets and sets in modes -l, -t, -p and extract, "
  "with -F patterns, -d, -L, -q, from every part of a set: member lists, sizes, timestamps, MD5s, piped bytes, file contents, mtimes, modes, exit status.")

def valid_dt(rng):
    y = rng.randrange(1981, 2037); mo = rng.randrange(1, 13); d = rng.randrange(1, 29); h = rng.randrange(24); mi = rng.randrange(60); s = rng.randrange(30) * 2
    return ((y - 1980) << 9) | (mo << 5) | d, (h << 11) | (mi << 5) | (s >> 1), (y, mo, d, h, mi, s)

def local_epoch(tz, t6):
    """seconds since the epoch of the wall-clock time t6 in the zone tz (daylight saving decided by the date, as mktime does with tm_isdst = -1)"""
    import time
    old = os.environ.get("TZ"); os.environ["TZ"] = tz; time.tzset()
    try: return int(time.mktime(tuple(t6) + (0, 0, -1)))
    finally:
        if old is None: del os.environ["TZ"]
        else: os.environ["TZ"] = old
        time.tzset()

def run(res, tier, replay):
    rng = random.Random(vlib.seed() * 141650939 + 17)
    res.rule = ("archive = single cabinet or 2-4 part set (stored/MSZIP/LZX/Quantum), members with attribute bits RDONLY/EXEC/ARCH in all combinations and valid DOS timestamps; "
                "runs: -l, -t, -p -q, extract under umask 022/027/077, each with and without -F pattern, sets started from every part; non-trivial = distinct (archive, mode, options)")
    proofs_ok = vlib.coq_gate(res, "Properties_C17")
    ok, log, exe = vlib.build_cabextract(); ok2, log2, mexe = vlib.build_model_drv()
    if not (ok and ok2): res.oblige("cabextract binary / model driver build", False, (log + log2)[-400:]); proof_broken(res, "C17"); return "proof"
    n = 6 if tier == "quick" else 60
    base = tempfile.mkdtemp(prefix="c17_"); nbad = 0; nruns = 0
    env = dict(os.environ, TZ="UTC", LC_ALL="C")
    def bad(text, detail, key):
        nonlocal nbad
        if res.violation(text, "# C17 binary-level scenario\n# %s\n%s\n" % (text, detail), key=key): nbad += 1
    try:
        for i in range(n):
            isset = i % 2 == 1
            c = gen.cab_set(rng) if isset else gen.cab_single(rng, big=(i % 4 == 0))
            # distinct names, valid timestamps, interesting attributes
            seen = set(); dts = {}
            for k, m in enumerate(c.members):
                m.name = b"m%d_%s.%s" % (k, bytes(rng.choice(b"abcXY") for _ in range(3)), rng.choice([b"txt", b"bin", b"TXT"]))
                m.attribs = [0x41, 0x01, 0x40, 0x20, 0x21, 0x61, 0x00, 0x60][(k + i) % 8] if k < 8 else rng.choice([0x20, 0x01, 0x40, 0x41, 0x21, 0x61, 0x00, 0x60]); m.date, m.time, dts[m.name] = valid_dt(rng)
            if any(f.method[0] == "qtm" and f.method[1] < 15 for f in c.folders): continue
            # a further folder with an empty member between two others (its test digest must be that of the empty string, not a leftover)
            if not isset:
                xf = cabfmt.Folder(rng.choice([("none",), ("mszip",)]), [cabfmt.Member(b"x", data=b"abc" * rng.randrange(1, 50), length=None), cabfmt.Member(b"e", data=b""), cabfmt.Member(b"y", data=b"tail")])
                for m in xf.members: m.length = len(m.data)
                c.folders.append(xf); c.members.extend(xf.members)
                for k, m in enumerate(c.members):
                    m.name = b"m%d_%s.%s" % (k, bytes(rng.choice(b"abcXY") for _ in range(3)), rng.choice([b"txt", b"bin", b"TXT"]))
                    if m.name not in dts: m.attribs = [0x41, 0x01, 0x40, 0x20, 0x21, 0x61, 0x00, 0x60][k % 8]; m.date, m.time, dts[m.name] = valid_dt(rng)
            work = os.path.join(base, "w%d" % i); os.makedirs(work)
            if isset:
                for f in c.folders: f.blocks = f.blocks
                cabs, names = cabfmt.build_set(c.folders, c.cuts, rng)
                paths = []
                # half of the sets lie on disk under names that differ in case from the names in the headers, and are addressed by
                # bare file name from inside their directory (cabextract looks neighbours up case-insensitively next to the cabinet)
                bare = (i // 2) % 2 == 1
                for cb, nm in zip(cabs, names):
                    p = os.path.join(work, nm.decode().swapcase() if bare else nm.decode()); open(p, "wb").write(cb); paths.append(p)
            else:
                bare = False
                p = os.path.join(work, "a.cab"); open(p, "wb").write(cabfmt.build_single(c.folders, rng, **c.kw)); paths = [p]
            members = c.members
            pat = rng.choice([None, "*.txt", "m1*", "*_a*", "M0*", "*"])
            sel = [m for m in members if pat is None or fnmatch.fnmatchcase(m.name.decode().lower(), pat.lower())]
            fopt = ["-F", pat] if pat else []
            if isset and len(paths) >= 2:
                # several parts of one set named on the command line (cabextract *.cab): every member is listed / tested / piped once,
                # quiet or not - a part already joined to an earlier argument's set is skipped
                argsets = [paths, [paths[-1], paths[0]]] + ([[paths[1], paths[-1]]] if len(paths) > 2 else [])
                # the same set reached through a directory of symbolic links to its parts
                ldir = os.path.join(work, "links"); os.makedirs(ldir, exist_ok=True)
                lpaths = []
                for x in paths:
                    lp = os.path.join(ldir, os.path.basename(x))
                    if not os.path.lexists(lp): os.symlink(os.path.join("..", os.path.basename(x)), lp)
                    lpaths.append(lp)
                argsets += [lpaths, [lpaths[0], lpaths[-1]], [paths[0], lpaths[-1]]]
                for al in argsets:
                    al = [os.path.basename(x) if (bare and os.path.dirname(x) == work) else x for x in al]
                    d2 = "cabinet files: %s\narguments: %s  pattern: %s" % ([os.path.basename(x) for x in paths], al, pat)
                    r = subprocess.run([exe, "-p", "-q"] + fopt + al, capture_output=True, env=env, timeout=120, cwd=work); nruns += 1
                    if r.stdout != b"".join(m.data for m in sel) or r.returncode != 0: bad("-p -q %s wrote %d bytes, expected %d (exit %d)" % (" ".join(os.path.basename(x) for x in al), len(r.stdout), sum(len(m.data) for m in sel), r.returncode), d2, "c17:multi-pipe")
                    for q in ([], ["-q"]):
                        r = subprocess.run([exe, "-l"] + q + fopt + al, capture_output=True, env=env, timeout=60, cwd=work); nruns += 1
                        rows = re.findall(r"^\s*(\d+) \| (\d\d)\.(\d\d)\.(\d{4}) (\d\d):(\d\d):(\d\d) \| (.*)$", r.stdout.decode("latin1"), flags=re.M)
                        if [x[7] for x in rows] != [m.name.decode() for m in sel] or r.returncode != 0: bad("-l %s %s lists %d members, expected %d (exit %d)" % (" ".join(q), " ".join(os.path.basename(x) for x in al), len(rows), len(sel), r.returncode), d2, "c17:multi-list")
                        r = subprocess.run([exe, "-t"] + q + fopt + al, capture_output=True, env=env, timeout=120, cwd=work); nruns += 1
                        got = re.findall(r"^  (\S+)  OK\s+([0-9a-f]{32})$", r.stdout.decode("latin1"), flags=re.M)
                        if [g[0] for g in got] != [m.name.decode() for m in sel] or r.returncode != 0: bad("-t %s %s reports %d members, expected %d (exit %d)" % (" ".join(q), " ".join(os.path.basename(x) for x in al), len(got), len(sel), r.returncode), d2, "c17:multi-test")
            for start_path in (paths if isset else paths[:1]):
                if isset and start_path != paths[0] and rng.random() < 0.5 and tier == "quick": continue
                start = os.path.basename(start_path) if bare else start_path
                detail = "cabinet files: %s\nstart: %s  pattern: %s\nmembers: %s" % ([os.path.basename(x) + "=" + open(x, "rb").read().hex()[:64] + "..." for x in paths], os.path.basename(start), pat, [(m.name, m.length, m.attribs) for m in members])
                # the -d option in its spellings (none, plain, with a trailing slash): it only prefixes the names shown; the members selected,
                # their order and their bytes do not depend on it
                dvar = rng.choice([None, os.path.join(work, "dd"), os.path.join(work, "dd") + "/", "rel/"])
                dopt = ["-d", dvar] if dvar else []; pre = (dvar + "/") if dvar else ""
                detail += "\n-d: %s" % dvar
                # -l
                r = subprocess.run([exe, "-l"] + dopt + fopt + [start], capture_output=True, env=env, timeout=60, cwd=work); nruns += 1
                rows = re.findall(r"^\s*(\d+) \| (\d\d)\.(\d\d)\.(\d{4}) (\d\d):(\d\d):(\d\d) \| (.*)$", r.stdout.decode("latin1"), flags=re.M)
                want = [(str(m.length), "%02d" % dts[m.name][2], "%02d" % dts[m.name][1], "%04d" % dts[m.name][0], "%02d" % dts[m.name][3], "%02d" % dts[m.name][4], "%02d" % dts[m.name][5], pre + m.name.decode()) for m in sel]
                if rows != want or (r.returncode != 0): bad("-l from %s lists %s, expected %s (exit %d)" % (os.path.basename(start), rows[:3], want[:3], r.returncode), detail, "c17:list")
                # -t
                r = subprocess.run([exe, "-t"] + dopt + fopt + [start], capture_output=True, env=env, timeout=120, cwd=work); nruns += 1
                got = re.findall(r"^  (\S+)  OK\s+([0-9a-f]{32})$", r.stdout.decode("latin1"), flags=re.M)
                want = [(pre + m.name.decode(), hashlib.md5(m.data).hexdigest()) for m in sel]
                if got != want or r.returncode != 0: bad("-t from %s reports %s, expected %s (exit %d)" % (os.path.basename(start), got[:2], want[:2], r.returncode), detail, "c17:test")
                if any(os.path.exists(os.path.join(work, m.name.decode())) for m in sel): bad("-t wrote a file", detail, "c17:test-writes")
                # several -F options: the members selected are the union of what each pattern selects, whatever the order of the options and
                # whether one pattern is a prefix of, equal to, or longer than another
                if pat and start_path == paths[0]:
                    for fl2 in ([pat + "?", pat], [pat, pat + "?"], [pat, pat], ["zz-nothing*", pat], [pat[:-1] if len(pat) > 1 else pat, pat], [pat + "zz", pat]):
                        sel2 = [m for m in members if any(fnmatch.fnmatchcase(m.name.decode().lower(), q.lower()) for q in fl2)]
                        fo2 = [x for q in fl2 for x in ("-F", q)]
                        r = subprocess.run([exe, "-l"] + fo2 + [start], capture_output=True, env=env, timeout=60, cwd=work); nruns += 1
                        rows = re.findall(r"^\s*(\d+) \| (\d\d)\.(\d\d)\.(\d{4}) (\d\d):(\d\d):(\d\d) \| (.*)$", r.stdout.decode("latin1"), flags=re.M)
                        if [x[7] for x in rows] != [m.name.decode() for m in sel2] or r.returncode != 0: bad("-l -F %s -F %s lists %s, expected %s (exit %d)" % (fl2[0], fl2[1], [x[7] for x in rows][:4], [m.name.decode() for m in sel2][:4], r.returncode), detail, "c17:multi-filter")
                        r = subprocess.run([exe, "-p", "-q"] + fo2 + [start], capture_output=True, env=env, timeout=120, cwd=work); nruns += 1
                        if r.stdout != b"".join(m.data for m in sel2) or r.returncode != 0: bad("-p -F %s -F %s wrote %d bytes, expected %d (exit %d)" % (fl2[0], fl2[1], len(r.stdout), sum(len(m.data) for m in sel2), r.returncode), detail, "c17:multi-filter")
                # -p
                r = subprocess.run([exe, "-p", "-q"] + dopt + fopt + [start], capture_output=True, env=env, timeout=120, cwd=work); nruns += 1
                if r.stdout != b"".join(m.data for m in sel) or r.returncode != 0: bad("-p from %s wrote %d bytes, expected %d (exit %d)" % (os.path.basename(start), len(r.stdout), sum(len(m.data) for m in sel), r.returncode), detail, "c17:pipe")
                # extract
                um = rng.choice([0o022, 0o027, 0o077]); dest = os.path.join(work, "d%d" % nruns)
                # every other extraction in a time zone with daylight saving (POSIX rule string: no zone database needed): the stored wall-clock time
                # is local time, summer or winter as the date says
                tzx = "CET-1CEST,M3.5.0,M10.5.0/3" if (i + len(fopt)) % 2 == 0 else "UTC"
                r = subprocess.run("cd %s && umask %o && exec %s -q %s -d %s %s" % (work, um, exe, " ".join("'%s'" % x for x in fopt), dest + rng.choice(["", "/"]), start), shell=True, capture_output=True, env=dict(env, TZ=tzx), timeout=120); nruns += 1
                created = sorted(os.listdir(dest)) if os.path.isdir(dest) else []
                if created != sorted(m.name.decode() for m in sel) or r.returncode != 0: bad("extract from %s created %s, expected %s (exit %d)" % (os.path.basename(start), created[:4], sorted(m.name.decode() for m in sel)[:4], r.returncode), detail, "c17:extract-set")
                else:
                    lines = ["%d %d %d %d" % (m.attribs, um, m.date, m.time) for m in sel]
                    rc, mo, err = vlib.run_lines(mexe, ["perm"], lines)
                    for m, ml in zip(sel, mo):
                        fp = os.path.join(dest, m.name.decode()); st = os.stat(fp)
                        pb, s, mi, h, d, mon0, y1900 = [int(x) for x in ml.split()]
                        mt = calendar.timegm((y1900 + 1900, mon0 + 1, d, h, mi, s))
                        if tzx != "UTC":
                            if mon0 + 1 in (3, 10) and d >= 25 and calendar.weekday(y1900 + 1900, mon0 + 1, d) == 6: continue      # the day the clocks change: an hour that does not exist / exists twice
                            mt = local_epoch(tzx, (y1900 + 1900, mon0 + 1, d, h, mi, s))
                        if open(fp, "rb").read() != m.data: bad("extracted %s differs from the member's bytes" % m.name, detail, "c17:content"); break
                        if (st.st_mode & 0o777) != pb: bad("mode of %s is %o, expected %o (attribs %#x, umask %o)" % (m.name, st.st_mode & 0o777, pb, m.attribs, um), detail, "c17:mode"); break
                        if int(st.st_mtime) != mt: bad("mtime of %s is %d, expected %d" % (m.name, int(st.st_mtime), mt), detail, "c17:mtime"); break
                res.evaluations += 4; res.nontrivial.add((i, os.path.basename(start), pat, um)); res.count("set" if isset else "single")
            # every member, no filter: the test mode's digests (empty members included) and the listing
            if not isset:
                r = subprocess.run([exe, "-t", paths[0]], capture_output=True, env=env, timeout=120); nruns += 1
                got = re.findall(r"^  (\S+)  OK\s+([0-9a-f]{32})$", r.stdout.decode("latin1"), flags=re.M)
                want = [(m.name.decode(), hashlib.md5(m.data).hexdigest()) for m in members]
                if got != want or r.returncode != 0:
                    k_ = next((k for k, (a_, b_) in enumerate(zip(got, want)) if a_ != b_), min(len(got), len(want)))
                    bad("-t without a filter reports %s for member %d, expected %s (exit %d)" % (got[k_:k_ + 1], k_, want[k_:k_ + 1], r.returncode),
                        "cabinet a.cab (hex): %s\nmembers: %s" % (open(paths[0], "rb").read().hex(), [(m.name, m.length) for m in members]), "c17:test-all")
            # exit status with a damaged member: corrupt data area of the last file
            bp = os.path.join(work, "bad.cab"); b = bytearray(open(paths[-1], "rb").read())
            if len(b) > 200 and not isset:
                for _ in range(4): b[rng.randrange(len(b) * 3 // 4, len(b))] ^= 0x55
                open(bp, "wb").write(bytes(b))
                r = subprocess.run([exe, "-t", bp], capture_output=True, env=env, timeout=60); nruns += 1
                # what counts as a failure: a member line saying "failed", or a complaint on stderr other than the warning that a
                # neighbouring cabinet named in the header is not on disk (the generator names neighbours in a fifth of the cabinets)
                complaints = [l for l in r.stderr.decode("latin1").split("\n") if l.strip() and not re.search(r": can't find \S+$", l)]
                failed = "failed" in r.stdout.decode("latin1") or bool(complaints)
                if (r.returncode == 0) == bool(failed): bad("exit status %d although %s" % (r.returncode, "a member failed" if failed else "nothing failed"), "damaged copy of a.cab: %s" % bytes(b).hex()[:200], "c17:exit")
                # the other modes decode the same members: they must fail (exit status) exactly when the test mode does
                rp = subprocess.run([exe, "-p", "-q", bp], capture_output=True, env=env, timeout=60); nruns += 1
                dd = os.path.join(work, "dbad"); rx = subprocess.run([exe, "-q", "-d", dd, bp], capture_output=True, env=env, timeout=60); nruns += 1
                if len({r.returncode == 0, rp.returncode == 0, rx.returncode == 0}) != 1:
                    bad("exit status differs between modes on the same damaged cabinet: -t %d, -p %d, extract %d" % (r.returncode, rp.returncode, rx.returncode), "damaged copy of a.cab (hex): %s" % bytes(b).hex(), "c17:exit-modes")
            shutil.rmtree(work, ignore_errors=True)
        # directed: members stored with DOS directory separators; -F patterns are matched against the name every mode prints and creates
        # (docs/guide.txt), so a pattern written that way selects the same members in -l, -t, -p and extraction
        work = os.path.join(base, "wdos"); os.makedirs(work)
        mem = [cabfmt.Member(b"docs\\guide.txt", data=b"guide text\n" * 7), cabfmt.Member(b"docs\\sub\\x.bin", data=bytes(range(200))), cabfmt.Member(b"top.txt", data=b"top\n"),
               cabfmt.Member(b"Docs\\Other.TXT", data=b"other\n" * 3)]
        for m in mem: m.length = len(m.data); m.date, m.time, _ = valid_dt(random.Random(17))
        fo = cabfmt.Folder(("mszip",), mem); cp = os.path.join(work, "dos.cab"); open(cp, "wb").write(cabfmt.build_single([fo], random.Random(17)))
        shown = lambda m: m.name.decode().replace("\\", "/")
        for pat in ("docs/*", "docs/guide.txt", "*/x.bin", "DOCS/*.txt", "top.txt", "docs\\\\*"):
            sel = [m for m in mem if fnmatch.fnmatchcase(shown(m).lower(), pat.lower())]
            detail = "cabinet (hex): %s\npattern: %s\nmembers as shown: %s" % (open(cp, "rb").read().hex(), pat, [shown(m) for m in mem])
            r = subprocess.run([exe, "-p", "-q", "-F", pat, cp], capture_output=True, env=env, timeout=60); nruns += 1
            if r.stdout != b"".join(m.data for m in sel) or r.returncode != 0: bad("-p -F '%s' wrote %d bytes, expected the %d bytes of %s" % (pat, len(r.stdout), sum(len(m.data) for m in sel), [shown(m) for m in sel]), detail, "c17:dos-pipe")
            r = subprocess.run([exe, "-l", "-F", pat, cp], capture_output=True, env=env, timeout=60); nruns += 1
            got = [l.split("| ", 2)[-1] for l in r.stdout.decode("latin1").split("\n") if re.match(r"^\s*\d+ \|", l)]
            if got != [shown(m) for m in sel]: bad("-l -F '%s' lists %s, expected %s" % (pat, got, [shown(m) for m in sel]), detail, "c17:dos-list")
            r = subprocess.run([exe, "-t", "-F", pat, cp], capture_output=True, env=env, timeout=60); nruns += 1
            got = re.findall(r"^  (\S+)  OK\s+([0-9a-f]{32})$", r.stdout.decode("latin1"), flags=re.M)
            if got != [(shown(m), hashlib.md5(m.data).hexdigest()) for m in sel]: bad("-t -F '%s' tests %s, expected %s" % (pat, [g[0] for g in got], [shown(m) for m in sel]), detail, "c17:dos-test")
            dd = os.path.join(work, "d%d" % nruns); r = subprocess.run([exe, "-q", "-F", pat, "-d", dd, cp], capture_output=True, env=env, timeout=60); nruns += 1
            made = sorted(os.path.relpath(os.path.join(dp, f_), dd) for dp, _, fs in os.walk(dd) for f_ in fs) if os.path.isdir(dd) else []
            if made != sorted(shown(m) for m in sel) or any(open(os.path.join(dd, shown(m)), "rb").read() != m.data for m in sel if shown(m) in made):
                bad("extraction with -F '%s' created %s, expected %s" % (pat, made, sorted(shown(m) for m in sel)), detail, "c17:dos-extract")
            res.evaluations += 4; res.nontrivial.add(("dos", pat)); res.count("dos-names")
        shutil.rmtree(work, ignore_errors=True)
    finally:
        shutil.rmtree(base, ignore_errors=True)
    res.oblige("search: %d runs of the cabextract binary agree with the generated archives in every mode" % nruns, nbad == 0)
    res.traces += nruns
    res.samples = ["cabextract -l|-t|-p|extract [-F pat] [-d dir] on generated cabinets/sets; e.g. pattern '*.txt', umask 027"]
    if not proofs_ok: proof_broken(res, "C17")
    return "proof"
