"""C04 — every call terminates after work bounded by input and output size."""
import random
import vlib
from vlib import scenario, sweep
from props.common import proof_broken
from props import robust

EXPLANATION = ("Theorems: LZSS decoder returns within |input|+1 loop iterations for every input and buffer size; cabd_find resumes strictly after every candidate; "
  "the repaired chmd_fast_find walk ends within num_chunks visits for every link structure.  Search: the library built with -fsanitize-coverage=trace-pc; the "
  "edges executed inside each API call are compared with a budget linear in (bytes of all input files + bytes written); a hang is caught by an edge cap and an alarm. "
  "Inputs: corpus, generated, damaged, hostile (CHM chunk-link cycles, zero-length blocks, truncated streams).")

BUDGET_FIXED = 6_000_000      # table building etc. (measured max ~0.4M edges on tiny inputs)
BUDGET_PER_BYTE = 40_000      # measured max ~630 edges/byte; LZX/Quantum/MSZIP expand at most ~258x

def run(res, tier, replay):
    rng = random.Random(vlib.seed() * 86028121 + 4)
    res.rule = ("per API call: edges executed (coverage callback) <= %d + %d x (sum of input file sizes + bytes written by the call); plus no hang "
                "(edge cap 4e9, alarm); non-trivial = distinct scenario" % (BUDGET_FIXED, BUDGET_PER_BYTE))
    proofs_ok = vlib.coq_gate(res, "Properties_C04")
    ok, log, exe = vlib.build_impl("cov")
    if not ok:
        res.oblige("C harness builds (coverage)", False, log[-300:]); proof_broken(res, "C04"); return "proof"
    q = tier == "quick"
    base = sweep.repo_cases() + sweep.generated_cases(rng, 3 if q else 25)
    cases = robust.corpus_cases() + sweep.cycle_cases(rng, 6 if q else 60) + sweep.hostile_cases(rng, 4 if q else 40) + sweep.targeted_cases(rng, 6 if q else 40) + sweep.uninit_cases(rng, 2 if q else 20) + base + sweep.damaged_cases(rng, base, 2 if q else 10)
    trs = scenario.run_scenarios(exe, [c.scn.with_prefix("edgecap 4000000000") for c in cases], timeout_each=60)
    nbad = 0; nops = 0; worst = 0.0
    for c, t in zip(cases, trs):
        res.evaluations += 1; res.nontrivial.add(c.label + str(hash(c.scn.text()))); res.count("case-" + c.label.split(":")[0] + "-" + c.fmt)
        if t.hang or (t.crash and "[outer timeout]" in t.crash):        # (on a loaded machine the runner's wall-clock limit can come before the edge cap)
            if res.violation("%s: an API call did not return (edge cap / alarm)" % c.label, c.scn.text(), key="hang:" + c.label.split(":")[0] + ":" + c.label.split(":")[1]): nbad += 1
            continue
        if t.crash: continue          # C02's business
        insz = sum(len(l.split()[2]) // 2 for l in c.scn.lines if l.startswith("file ") and l.split()[2] != "-")
        for o in t.ops:
            e = o.work.get("edges", 0); w = (o.written or 0) if o.written is not None else (o.outlen or 0)
            budget = BUDGET_FIXED + BUDGET_PER_BYTE * (insz + w); nops += 1
            worst = max(worst, e / budget)
            if e > budget:
                if res.violation("%s: %s executed %d edges, budget %d (input %d bytes, output %d bytes)" % (c.label, o.name, e, budget, insz, w), c.scn.text(), key="work:" + o.name): nbad += 1
                break
    res.oblige("search: %d API calls within the work budget, none hanging (worst ratio %.3f of budget)" % (nops, worst), nbad == 0)
    res.extra["api_calls_measured"] = nops; res.extra["worst_fraction_of_budget"] = round(worst, 4)
    res.samples = [c.label + " :: " + " | ".join(l for l in c.scn.lines if not l.startswith("file "))[:200] for c in cases[:3]]
    if not proofs_ok: proof_broken(res, "C04")
    return "proof"
