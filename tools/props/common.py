"""helpers shared by the per-property check modules"""
import os, random, json
import vlib

def proof_broken(res, what, search_fn=None):
    """A theorem / generated obligation no longer checks.  Search the implementation for a failing input with
    the property's oracle (search_fn returns True when it recorded a concrete violation); otherwise report
    no-failing-input-found, naming what broke."""
    found = False
    if search_fn:
        n0 = len(res.violations); search_fn(); found = len(res.violations) > n0
    if not found:
        broken = [o for o in res.obligations if not o[1]]
        txt = "proof obligation(s) no longer check: " + "; ".join("%s [%s]" % (n, d[:200]) for n, _, d in broken)
        res.violation(txt, "property %s: %s\n\nno concrete failing input was found by the search on the implementation.\n" % (res.pid, txt), found_input=False)

def diff_engines(res, engine, cases, args_impl=(), variant="asan", label=None, model_engine=None, canon=None, timeout=900):
    """run the same case lines through the extracted model and the C harness; returns list of (case, model_line, impl_line) that differ.
    Sanitizer reports / crashes of the C side are returned as ('CRASH', stderr)."""
    ok, log, mexe = vlib.build_model_drv()
    if not ok:
        res.oblige("extracted model driver builds", False, log[-400:]); return None
    ok, log, iexe = vlib.build_impl(variant)
    if not ok:
        res.oblige("C harness builds from /repo working tree (%s)" % variant, False, log[-600:]); return None
    rc_m, out_m, err_m = vlib.run_lines(mexe, [model_engine or engine], cases, timeout)
    rc_i, out_i, err_i = vlib.run_lines(iexe, [engine] + [str(a) for a in args_impl], cases, timeout)
    diffs = []
    if rc_i != 0:
        k = len(out_i)
        diffs.append((cases[k] if k < len(cases) else "?", "CRASH rc=%d" % rc_i, err_i[-1500:]))
    n = min(len(out_m), len(out_i), len(cases))
    for i in range(n):
        a, b = out_m[i], out_i[i]
        if canon: a, b = canon(a), canon(b)
        if a != b: diffs.append((cases[i], out_m[i], out_i[i]))
    if rc_i == 0 and (len(out_m) != len(cases) or len(out_i) != len(cases)):
        diffs.append(("?", "model produced %d lines, impl %d, cases %d" % (len(out_m), len(out_i), len(cases)), err_m[-300:]))
    res.traces += n
    return diffs
