"""C14 — search() finds every embedded cabinet, at any offset, with any buffer size."""
import random
import vlib
from vlib import scenario, gen
from props.common import proof_broken

EXPLANATION = ("Theorems: chunked scanning = scanning the concatenation (buffer-size independence of the automaton); from every searching state the signature + 16 header "
  "bytes yield the candidate with both fields decoded; everything reported parsed as a cabinet.  Tie: the extracted search loop (parse = 'a generated cabinet starts "
  "here') vs the C search() on the same files.  Search: files = filler (random, runs of 'M', signature prefixes, fake headers with plausible and implausible fields) "
  "with 1-3 generated cabinets at offsets around buffer multiples, searched with buffer sizes 4..64 and 32768; found offsets, listings and extracted bytes vs the generator.")

def filler(rng, n):
    k = rng.random()
    if k < 0.25: return bytes(rng.randrange(256) for _ in range(n))
    if k < 0.45: return b"M" * n
    if k < 0.65: return (b"MSC" * (n // 3 + 1))[:n]
    if k < 0.8: return (b"MSMSCMSCFX" * (n // 10 + 1))[:n]
    # fake headers: MSCF + fields
    out = bytearray()
    while len(out) < n:
        out += b"MSCF" + bytes(rng.randrange(256) for _ in range(4)) + (rng.choice([0, 10, 100, 5000, 0xFFFFFFFF])).to_bytes(4, "little") + bytes(4) + (rng.choice([0, 5, 50, 0x7FFFFFFF])).to_bytes(4, "little") + bytes(rng.randrange(0, 9))
    return bytes(out[:n])

def run(res, tier, replay):
    rng = random.Random(vlib.seed() * 472882027 + 14)
    res.rule = ("file = filler + cabinet + filler + ...; cabinets at offsets chosen around multiples of the search buffer size and directly after partial signatures "
                "('M', 'MS', 'MSC', 'MSCF' + implausible fields); buffer sizes 4,5,7,8,16,20,21,64,32768; non-trivial = distinct (file, buffer size)")
    proofs_ok = vlib.coq_gate(res, "Properties_C14")
    ok, log, exe = vlib.build_impl("asan"); ok2, log2, mexe = vlib.build_model_drv()
    if not (ok and ok2): res.oblige("drivers build", False, (log + log2)[-300:]); proof_broken(res, "C14"); return "proof"
    n = 16 if tier == "quick" else 200
    scns = []; meta = []; mlines = []
    for i in range(n):
        ncab = rng.randrange(1, 4) if i != 1 else 1; bufsz = rng.choice([4, 5, 7, 8, 16, 20, 21, 64, 32768])
        data = bytearray(); offs = []; cabs = []
        for j in range(ncab):
            pre = rng.choice([0, 1, 2, 3, bufsz - 1, bufsz, bufsz + 1, 2 * bufsz - 3, rng.randrange(0, 200)]) if bufsz < 1000 else rng.choice([0, 1, 2, 3, rng.randrange(0, 300)])
            fl = filler(rng, pre)
            if rng.random() < 0.4: fl += rng.choice([b"M", b"MS", b"MSC", b"MM", b"MSCMSC"])
            if rng.random() < 0.15: fl += b"MSCF" + bytes(12) + rng.choice([bytes(rng.randrange(0, 12)), b""])   # implausible candidate (lengths 0) just before
            data += fl
            if i % 8 == 5 and j == 0:
                # a look-alike in front: a cabinet whose first file entry names a folder that does not exist and whose declared size reaches
                # over the real cabinets behind it - not a cabinet in strict mode, whatever other parameters were set before the search
                import struct as _s14
                la = bytearray(gen.cab_single(rng, nfolders=1, methods=[("none",)]).files["in0.cab"])
                fo_ = _s14.unpack_from("<I", la, 16)[0]; _s14.pack_into("<H", la, fo_ + 8, rng.choice([7, 1, 0x7FFF])); _s14.pack_into("<I", la, 8, rng.choice([100000, len(la) + 500, 0x7FFFFFFF]))
                data += la + filler(rng, rng.choice([0, 3, 30]))
            if i % 8 == 6 and j == 0:
                # a header-shaped run of bytes in front that passes the plausibility filter and claims 65535 folders: reading its folder
                # table runs into the end of the file - one more candidate that is not a cabinet, the real ones behind it are still found
                import struct as _s14
                data += _s14.pack("<4sIIIIIBBHHHHH", b"MSCF", 0, 100, 0, 40, 0, 3, 1, 65535, 1, 0, 0x1234, 0) + bytes([7, 7, 7][:i // 8 % 4])
            if i % 8 == 1:
                # the smallest well-formed cabinets: one folder without data blocks, only empty members with one-letter names (62 bytes and up);
                # the whole searched file stays below 71 bytes
                from vlib import cabfmt
                fo = cabfmt.Folder(("none",), [cabfmt.Member(bytes([97 + k]), data=b"") for k in range(1 if j == 0 and ncab == 1 else rng.choice([1, 2]))])
                c = gen.CabCase(); c.folders = [fo]; c.files["in0.cab"] = cabfmt.build_single([fo], rng, with_ck=False); c.members = list(fo.members)
                if ncab == 1: data = data[:rng.choice([0, 1, 3])]
            elif i == 3 and j == 0:
                # directed (own generator state): the small-window Quantum folder of the recorded finding qtm-small-window-wrap, found by search()
                from vlib import cabfmt
                fo = cabfmt.Folder(("qtm", 10), [cabfmt.Member(b"q0.bin", length=1000), cabfmt.Member(b"q1.bin", length=1500)])
                c = gen.CabCase(); c.folders = [fo]; c.files["in0.cab"] = cabfmt.build_single([fo], random.Random(2), with_ck=True); c.members = list(fo.members)
            else:
                c = gen.cab_single(rng, nfolders=1)
            offs.append(len(data)); cabs.append(c); data += c.files["in0.cab"]
        data += filler(rng, rng.choice([0, 1, 19, 20, 40]) if i % 8 != 1 else rng.choice([0, 1, 3]))
        sc = scenario.Scn().file("in0.cab", bytes(data)).op("cab_new").op("cab_param", 0, bufsz)
        if i % 2 == 1: sc.op("cab_param", 2, rng.choice([4096, 4, 65536])).op("cab_param", 1, 0)      # parameters of the decompressor proper: no business of the search
        sc.op("cab_search", "c0", "in0.cab")
        for j in range(ncab):
            for mi in range(len(cabs[j].members)): sc.op("cab_extract", "c0", mi, "out%d_%d" % (j, mi), j)
        scns.append(sc); meta.append((offs, cabs, bufsz, bytes(data)))
        mlines.append("0 %s %s" % (",".join(str(o) for o in offs), bytes(data).hex()))
    # a cabinet far inside a container larger than 2 GiB (a sparse file of the harness: zero bytes except for the cabinet): offsets
    # relative to the cabinet stay small, the absolute ones do not
    far = []
    for i in range(2 if tier == "quick" else 5):
        c = gen.cab_single(rng, nfolders=rng.choice([1, 2]), methods=[("none",), ("mszip",)]); cb = c.files["in0.cab"]
        # always one cabinet wholly beyond 2^31 (its header strings too) and one straddling the mark; beyond 2^32 in the thorough tier
        off = [0x80001000, 0x80000000 - len(cb) // 2, 0x7FFF8000 - 40, 0x100000309, 0xFFFFFFF0][i]
        sc = scenario.Scn(); sc.lines.append("sparse in0.cab %d %d %s" % (off + len(cb) + rng.choice([0, 77]), off, cb.hex()))
        sc.op("cab_new").op("cab_search", "c0", "in0.cab")
        for mi in range(len(c.members)): sc.op("cab_extract", "c0", mi, "out0_%d" % mi, 0)
        far.append((sc, off, c))
    ftr = scenario.run_scenarios(exe, [x[0] for x in far], timeout_each=300)
    nfar = 0
    for (sc, off, c), t in zip(far, ftr):
        res.evaluations += 1; res.nontrivial.add(("far", off)); res.count("far-offset")
        if t.crash or t.hang:
            if res.violation("crash/hang in search() over a container larger than 2 GiB: %s" % (t.crash or "hang")[-200:], sc.text(), key="crash"): nfar += 1
            continue
        so = [o for o in t.ops if o.name == "cab_search"][0]
        found = [int(dict(x.split("=", 1) for x in l.split()[2:] if "=" in x)["base"]) for l in so.lines if l.startswith("cab ")]
        exs = [o for o in t.ops if o.name == "cab_extract"]
        why = None
        if found != [off]: why = "search() over a %d-byte container found cabinets at %s, one is at %d" % (off, found, off)
        elif len(exs) != len(c.members) or any(o.kv.get("st") != "0" or (o.out or "") != m.data.hex() for o, m in zip(exs, c.members)):
            why = "member of the cabinet found at offset %d (beyond 2 GiB) extracts wrongly (%s)" % (off, [o.kv.get("st") for o in exs])
        if why and res.violation(why, sc.text(), key="search-far"): nfar += 1
    res.oblige("search: a cabinet beyond the 2 GiB mark of its container is found, listed and extracted (%d containers)" % len(far), nfar == 0)
    # directed (own generator state): every part of a split set behind filler in its file; the parts search() reports are joined
    # and every member is extracted - what lies behind the reported offsets is the cabinet, wherever in its file it starts
    from vlib import cabfmt as _cf
    nemb = 0; emb_s = []; emb_m = []
    for di in range(2 if tier == "quick" else 6):
        r14 = random.Random(1414 + di)
        fo = _cf.Folder([("none",), ("mszip",), ("lzx", 16)][di % 3], [_cf.Member(b"e%d.bin" % j, length=ln) if di % 3 == 2 else _cf.Member(b"e%d.bin" % j, data=bytes(r14.randrange(256) for _ in range(ln))) for j, ln in enumerate([3000, 40000, 30000])])
        for m_ in fo.members:
            if m_.data is not None: m_.length = len(m_.data)
        fo.prepare(r14); cabs_, names_ = _cf.build_set([fo], [(0, 1, 5000)], r14, names=[b"e1.cab", b"e2.cab"])
        # (one file per part; two cabinets of ONE search() result joined with each other are C02's directed scenario)
        sc = scenario.Scn().file("in0.cab", filler(r14, 700) + cabs_[0] + filler(r14, 50)).file("in1.cab", filler(r14, 333 + di) + cabs_[1] + filler(r14, 50))
        sc.op("cab_new").op("cab_param", 0, [7, 32768][di % 2]).op("cab_search", "c0", "in0.cab").op("cab_search", "c1", "in1.cab").op("cab_append", "c0", "c1")
        for mi in range(3): sc.op("cab_extract", "c0", mi, "out%d" % mi, 0)
        emb_s.append(sc); emb_m.append(fo)
    for sc, fo, t in zip(emb_s, emb_m, scenario.run_scenarios(exe, emb_s)):
        res.evaluations += 1; res.nontrivial.add(("embedded-set", len(sc.text()))); res.count("embedded-set")
        ex_ = [o for o in t.ops if o.name == "cab_extract"]; jn_ = [o for o in t.ops if o.name == "cab_append"]
        good = not t.crash and not t.hang and jn_ and jn_[0].kv.get("st") == "0" and len(ex_) == 3 and all(o.kv.get("st") == "0" and (o.out or "") == m_.data.hex() for o, m_ in zip(ex_, fo.members))
        if not good:
            nemb += 1; res.violation("a split set whose parts lie behind filler in their files: found by search(), joined, but members do not extract (%s)" % ([o.kv.get("st") for o in ex_] or (t.crash or "")[-100:]), sc.text(), key="c14:embedded-set")
    res.oblige("search: the parts of a split set embedded behind filler are found, join and extract (%d files)" % len(emb_s), nemb == 0)
    trs = scenario.run_scenarios(exe, scns)
    rc, mout, err = vlib.run_lines(mexe, ["find"], mlines)
    nbad = 0; ndiff = 0
    for t, (offs, cabs, bufsz, data), sc, mo in zip(trs, meta, scns, mout):
        res.evaluations += 1; res.nontrivial.add((hash(data), bufsz)); res.count("bufsize-%d" % bufsz)
        if t.crash or t.hang:
            if res.violation("crash/hang in search(): %s" % (t.crash or "hang")[-200:], sc.text(), key="crash"): nbad += 1
            continue
        so = [o for o in t.ops if o.name == "cab_search"][0]
        found = [int(dict(x.split("=", 1) for x in l.split()[2:] if "=" in x)["base"]) for l in so.lines if l.startswith("cab ")]
        model = [int(x) for x in mo.rstrip(".").split(",") if x] if mo != "nofuel" else None
        why = None; whykey = "search"
        if model != found: ndiff += 1; why = "C search() found %s, the extracted search loop finds %s" % (found, model)
        elif found != offs: why = "search() with buffer size %d found cabinets at %s, they are at %s" % (bufsz, found, offs)
        elif so.kv.get("err") != "0": why = "search() found everything but last_error is %s" % so.kv.get("err")
        else:
            exs = [o for o in t.ops if o.name == "cab_extract"]; k = 0
            for j, c in enumerate(cabs):
                for m in c.members:
                    o = exs[k]; k += 1
                    if o.kv.get("st") != "0" or (o.out or "") != m.data.hex():
                        why = "member of the cabinet found at %d extracts wrongly (st=%s)" % (offs[j], o.kv.get("st"))
                        meth = c.folders[0].method
                        if meth[0] == "qtm" and meth[1] < 15 and o.kv.get("st") == "11": whykey = "qtm-small-window-wrap"
                        break
                if why: break
        if why:
            if res.violation(why, sc.text(), key=whykey): nbad += 1
    res.oblige("correspondence: extracted search loop and C search() report the same offsets on %d files" % len(scns), ndiff == 0)
    res.oblige("search: every embedded cabinet found at its offset, listed and extracted correctly (%d files)" % len(scns), nbad == 0)
    res.traces += len(scns)
    res.samples = [" | ".join(l for l in s.lines if not l.startswith("file "))[:200] + " offsets=%s" % (m[0],) for s, m in zip(scns[:3], meta[:3])]
    if not proofs_ok or ndiff: proof_broken(res, "C14")
    return "proof"
