"""C03 — CHM listing and extraction reproduce every stored file exactly."""
import random
import vlib
from vlib import chmfmt, scenario
from props import chmlib
from props.common import proof_broken

EXPLANATION = ("Theorems (Properties_C03): ENCINT decode inverts encode for every value below 2^63; a PMGL chunk lists exactly the entries encoded into it; "
  "open() on a file whose chunks are such PMGL chunks lists exactly the directory (user files in order, system files separately); section-0 extraction "
  "is the byte range; reset-point arithmetic.  Tie: the extracted model of chmd.c (Model/Chm.v: headers, listing, fast_find, ControlData/ResetTable/SpanInfo, "
  "extract on both sections through the LZX port) vs the C library on the same CHM files and the same operation sequences, well-formed and damaged.  "
  "Search: the property's own oracle - generator's names/sections/offsets/lengths/bytes vs what open() and extract() deliver, files extracted in several orders.")

def oracle(res, t, chm, exp, p, order, label, sc):
    """well-formed CHM: listing and extracted bytes against the generator"""
    if t.crash or t.hang:
        res.violation("crash/hang on a well-formed CHM (%s): %s" % (label, (t.crash or "hang")[-300:]), sc.text(), key="c03:crash"); return False
    o = [x for x in t.ops if x.name == "chm_open"]
    if not o or o[0].kv.get("ok") != "1":
        res.violation("open() fails on a well-formed CHM (%s): err=%s" % (label, o[0].kv.get("err") if o else "?"), sc.text(), key="c03:open"); return False
    names = sorted(exp.keys(), key=chmfmt.sort_key)
    want_f = [(n.hex(), exp[n][0], exp[n][1], exp[n][2]) for n in names if not n.startswith(b"::")]
    want_s = sorted((n.hex(), exp[n][0], exp[n][1], exp[n][2]) for n in names if n.startswith(b"::"))
    got_f = []; got_s = []
    for l in o[0].lines:
        if l.startswith(" file ") or l.startswith(" sys "):
            kv = dict(x.split("=", 1) for x in l.split()[1:])
            (got_f if l.startswith(" file ") else got_s).append((kv["name"], int(kv["sec"]), int(kv["off"]), int(kv["len"])))
    if got_f != want_f or sorted(got_s) != want_s:
        bad = next((i for i in range(min(len(got_f), len(want_f))) if got_f[i] != want_f[i]), min(len(got_f), len(want_f)))
        res.violation("listing of a well-formed CHM differs (%s): %d/%d files, first difference at %d: got %s want %s" % (label, len(got_f), len(want_f), bad, got_f[bad:bad + 1], want_f[bad:bad + 1]), sc.text(), key="c03:listing"); return False
    allnames = [bytes.fromhex(n) for n, _, _, _ in got_f] + [bytes.fromhex(n) for n, _, _, _ in got_s]
    exs = [x for x in t.ops if x.name == "chm_extract"]
    for x, idx in zip(exs, order):
        nm = allnames[idx]; want = exp[nm][3]
        if x.kv.get("st") != "0" or (x.out or "") != want.hex():
            k = next((i for i in range(min(len(want), len(x.out or "") // 2)) if want[i] != int((x.out or "")[2 * i:2 * i + 2], 16)), None)
            res.violation("extract of %r (section %d, offset %d, %d bytes) from a well-formed CHM (%s): st=%s, %s bytes written, first wrong byte at %s" % (nm[:40], exp[nm][0], exp[nm][1], exp[nm][2], label, x.kv.get("st"), x.outlen, k), sc.text(), key="c03:bytes"); return False
    return len(exs) == len(order)

def run(res, tier, replay):
    rng = random.Random(vlib.seed() * 7368787 + 3)
    res.rule = ("CHM = chmfmt builder: 1-700 names (ASCII, 2/3/4-byte UTF-8, near-collisions, directory entries), chunk sizes 64-8192, densities 0-9, with/without index, versions 1-3, "
                "section 0 files 0-1500 bytes, section 1 (LZX windows 2^15-2^18, reset every 1/2/4 frames, files of 0-70000 bytes at any offset, ControlData v1/v2, reset table 4/8-byte entries or absent, "
                "SpanInfo, Content first or last); sessions: open or fast_open, then extracts in forward / reverse / random order with repeats and fast_find-then-extract; damaged copies: 1-5 bit flips; "
                "non-trivial = distinct (file, session)")
    proofs_ok = vlib.coq_gate(res, "Properties_C03")
    ok, log, mexe = vlib.build_model_drv(); ok2, log2, iexe = vlib.build_impl("asan")
    if not (ok and ok2):
        res.oblige("drivers build", False, (log + log2)[-500:]); proof_broken(res, "C03"); return "proof"
    n = 40 if tier == "quick" else 600
    wf = []; cases = []
    for i in range(n):
        try: chm, exp, p = chmlib.rand_chm(rng, big=(i % 25 == 24), far_reset=(i % 10 == 5))
        except ValueError: continue
        names = sorted(exp.keys(), key=chmfmt.sort_key)
        users = [nm for nm in names if not nm.startswith(b"::")]; nsys = len(names) - len(users)
        idxs = list(range(len(names)))
        mode = 1 if i % 10 == 5 else i % 4
        if mode == 0: order = idxs[:40]
        elif mode == 1: order = idxs[::-1][:40]
        else:
            # section-1 files first in random order with repeats (forces re-initialisation at reset points), then a sample of the rest
            s1 = [k for k, nm in enumerate(users) if exp[nm][0] == 1]
            order = [rng.choice(s1) for _ in range(min(8, 3 * len(s1)))] if s1 else []
            order += rng.sample(idxs, min(len(idxs), 12))
        ops = ["x%d" % k for k in order]
        sc = chmlib.scn_for(chm, True, ops)
        wf.append((chm, exp, p, order, "seed-case %d %s" % (i, {k: p[k] for k in ("chunk_size", "density", "wbits", "reset_frames", "version", "with_rtable", "with_index")}), sc))
        cases.append((chm, True, ops))
        # a fast_open session: find then extract
        fops = []
        for _ in range(4):
            nm = rng.choice(names); fops.append(("F" if rng.random() < 0.7 else "f") + nm.hex())
        cases.append((chm, False, fops))
        # damaged copies
        for _ in range(2 if tier == "quick" else 3):
            b = bytearray(chm)
            for _ in range(rng.choice([1, 1, 2, 5])):
                pos = rng.randrange(len(b)) if rng.random() < 0.5 else rng.randrange(min(len(b), 0x60 + 0x54 + 3000))
                b[pos] ^= 1 << rng.randrange(8)
            dops = ["x%d" % rng.randrange(len(names) + 1) for _ in range(3)] + ["F" + rng.choice(names).hex()]
            cases.append((bytes(b), rng.random() < 0.7, dops))
        if i % 5 == 1:
            # directory entries whose offset / length need more than 32 bits (declared only: the listing and fast_find must carry them exactly)
            try:
                big, bexp = chmfmt.build([(b"/a.txt", b"hello"), (b"/b.bin", bytes(40))], (), rng, chunk_size=rng.choice([256, 4096]), density=2,
                                         extra_entries=[(b"/huge0.bin", 0, 0x100000123, 0x1000), (b"/huge1.bin", 0, 45, 0x100000123), (b"/huge2.bin", 0, 0xFFFFFFFF, 0x7FFFFFFFFF), (b"/huge3.bin", 0, 0x100000000, 1)])
                bn = sorted(bexp.keys(), key=chmfmt.sort_key)
                cases.append((big, True, ["F" + x.hex() for x in bn] + ["x%d" % bn.index(b"/a.txt")]))
                cases.append((big, False, ["F" + x.hex() for x in bn]))
            except ValueError: pass
        if i % 5 == 0:
            # 64-bit header fields with the top bit set (file length, directory offset): off_t is signed
            import struct as _st
            hs0 = _st.unpack_from("<Q", chm, 0x38)[0]
            for pos in (hs0 + 15, 0x38 + 23, 0x38 + 7):
                if pos < len(chm):
                    b = bytearray(chm); b[pos] ^= 0x80
                    cases.append((bytes(b), True, ["x0", "F" + names[0].hex()]))
    # ---- oracle on the implementation
    trs = scenario.run_scenarios(iexe, [w[5] for w in wf])
    nbad = 0
    for t, (chm, exp, p, order, label, sc) in zip(trs, wf):
        res.evaluations += 1; res.nontrivial.add(label); res.count("wf-chm"); res.count("v%d" % p["version"]); res.count("rtable" if p["with_rtable"] else "spaninfo-only")
        if not oracle(res, t, chm, exp, p, order, label, sc): nbad += 1
    res.oblige("search: %d well-formed CHMs list and extract exactly what the generator stored (C, ASan+UBSan)" % len(wf), nbad == 0)
    # ---- correspondence
    rc, mo, err = vlib.run_lines(mexe, ["chm"], [chmlib.model_line(*c) for c in cases], timeout=3000)
    ctr = scenario.run_scenarios(iexe, [chmlib.scn_for(*c) for c in cases])
    diffs = []; skipped = 0
    for c, m, t in zip(cases, mo, ctr):
        res.evaluations += 1
        if t.crash or t.hang: continue          # C02 / C04 report those
        if "#X 98" in m: skipped += 1; continue   # arithmetic the model declares it does not follow
        cc = chmlib.c_canonical(t)
        if cc != m: diffs.append((c, m, cc))
    res.count("model-unmodelled", skipped)
    res.oblige("correspondence: model of chmd.c = C library on %d sessions (well-formed, fast_open, damaged)" % len(cases), not diffs and len(mo) == len(cases), ("%d differ; %s" % (len(diffs), err[-200:])) if diffs or len(mo) != len(cases) else "")
    res.traces += len(cases) + len(wf)
    res.samples = [" | ".join(l for l in wf[0][5].lines if not l.startswith("file "))[:300]] if wf else []
    if diffs or not proofs_ok:
        def s():
            for c, m, cc in diffs[:2]:
                a = cc.replace("#", ";").split(";"); b = m.replace("#", ";").split(";")
                k = next((i for i in range(min(len(a), len(b))) if a[i] != b[i]), min(len(a), len(b)))
                res.violation("model of chmd.c and the C library disagree (record %d: C %s | model %s)" % (k, (a[k] if k < len(a) else "-")[:120], (b[k] if k < len(b) else "-")[:120]),
                              chmlib.scn_for(*c).text(), found_input=False)
        proof_broken(res, "C03", s)
    return "proof"
