"""C06 — OAB files and incremental patches decompress to the exact target."""
import random
import vlib
from vlib import scenario
from props import oablib
from props.common import proof_broken

EXPLANATION = ("Theorems (Properties_C06): window-bits selection is the least of 2^17..2^25 covering the size; the CRC table is the polynomial's and the running CRC is independent of write chunking; "
  "decompress() and decompress_incremental() return exactly the concatenated block data for every block list, padding, trailing data and buffer size, given a block decoder that decodes each block "
  "(parametric).  Tie: the extracted model of oabd.c with the LZX port as block decoder vs the C library on generated and damaged files and patches.  Search: generator plaintext vs the C output "
  "for files/patches with block sizes at the window-size boundaries, at buffer sizes 16..65536.")

def run(res, tier, replay):
    rng = random.Random(vlib.seed() * 49979687 + 6)
    res.rule = ("full files: 1-3 blocks (stored / LZX DELTA) of 0..262145 bytes with padding; patches: 1-2 blocks with (source, target) sizes incl. pairs where round32k(source)+target is just above a power "
                "of two while round32k(source+target) is not, reference matches, extended lengths; buffer sizes 16,17,100,4096,65536; damaged copies (bit flips, truncation, header fields); "
                "non-trivial = distinct (file, buffer size)")
    proofs_ok = vlib.coq_gate(res, "Properties_C06")
    ok, log, mexe = vlib.build_model_drv(); ok2, log2, iexe = vlib.build_impl("asan")
    if not (ok and ok2):
        res.oblige("drivers build", False, (log + log2)[-500:]); proof_broken(res, "C06"); return "proof"
    n = 24 if tier == "quick" else 300
    lines = []; scns = []; meta = []
    for i in range(n):
        bs = rng.choice([16, 17, 100]) if i % 6 == 2 else rng.choice([16, 17, 100, 4096, 65536])
        if i % 2 == 0:
            oab, plain, lab = oablib.full_case_padfit(rng, bs) if (i % 6 == 2 and bs <= 100) else oablib.full_case(rng, big=(i % 8 == 0))
            lines.append(oablib.model_line_full(oab, bs)); scns.append(oablib.scn_full(oab, bs)); meta.append((lab + " buf=%d" % bs, plain))
            for _ in range(2):
                d = oablib.damage(rng, oab, 16); lines.append(oablib.model_line_full(d, bs)); scns.append(oablib.scn_full(d, bs)); meta.append((lab + " damaged", None))
        else:
            pt, base, plain, lab = oablib.patch_case(rng, big=(i % 4 == 1))
            lines.append(oablib.model_line_patch(pt, base)); scns.append(oablib.scn_patch(pt, base, bs)); meta.append((lab + " buf=%d" % bs, plain))
            for _ in range(2):
                if rng.random() < 0.8: d, b2 = oablib.damage(rng, pt, 28), base
                else: d, b2 = pt, base[:rng.randrange(len(base) + 1)]
                lines.append(oablib.model_line_patch(d, b2)); scns.append(oablib.scn_patch(d, b2, bs)); meta.append((lab + " damaged", None))
    # directed: a patch block that only drops base data (target size 0) whose source size is exactly a power of two, so that the
    # reference data fills the LZX window to the last byte; between two ordinary blocks, at several buffer sizes
    from vlib import oabfmt
    for k in ([17] if tier == "quick" else [17, 18, 19]):
        for ss in ((1 << k), (1 << k) - 1):
            pt, base, plain = oabfmt.build_patch(rng, [(0, 1000), (ss, 0), (4096, 20000)])
            for bs in ([4096, 16] if tier == "quick" else [16, 17, 4096, 65536]):
                lines.append(oablib.model_line_patch(pt, base)); scns.append(oablib.scn_patch(pt, base, bs)); meta.append(("patch drop-block source=%d buf=%d" % (ss, bs), plain))
    # directed: the first token of a patch block is a match that starts in the last bytes of the reference data and runs on over the
    # window edge into its own output (short offset, long length: a run at the end of the base continuing into the target)
    for k, (off, ml) in enumerate([(3, 96), (1, 257), (2, 5), (7, 8), (5, 200)][:(3 if tier == "quick" else 5)]):
        pt, base, plain = oabfmt.build_patch(rng, [(100, 300), (40000, 500)], first_match=(off, ml))
        for bs in ([4096] if tier == "quick" else [16, 4096]):
            lines.append(oablib.model_line_patch(pt, base)); scns.append(oablib.scn_patch(pt, base, bs)); meta.append(("patch edge-match off=%d len=%d buf=%d" % (off, ml, bs), plain))
    # directed: stored blocks of odd and tiny sizes between compressed ones
    for sizes, kinds in (([1, 7, 100, 333], [0, 0, 1, 0]), ([333, 1, 5000], [0, 0, 0]), ([0, 5, 0, 3], [0, 1, 0, 0])):
        oab, plain = oabfmt.build_full(rng, sizes, kinds=kinds)
        for bs in ([16, 4096] if tier == "quick" else [16, 17, 100, 4096]):
            lines.append(oablib.model_line_full(oab, bs)); scns.append(oablib.scn_full(oab, bs)); meta.append(("full stored-odd sizes=%s buf=%d" % (sizes, bs), plain))
    rc, mo, err = vlib.run_lines(mexe, ["oab"], lines, timeout=3000)
    trs = scenario.run_scenarios(iexe, scns, timeout_each=60)
    diffs = []; nbad = 0
    for (lab, plain), m, t, sc in zip(meta, mo, trs, scns):
        res.evaluations += 1; res.nontrivial.add(lab + str(hash(sc.text()))); res.count(lab.split()[0] + ("-damaged" if plain is None else ""))
        if t.crash or t.hang:
            if plain is not None: res.violation("crash/hang on a well-formed OAB input (%s): %s" % (lab, (t.crash or "hang")[-300:]), sc.text(), key="c06:crash"); nbad += 1
            continue
        c = oablib.c_result(t)
        if plain is not None and c != "0 " + plain.hex():
            st = c.split()[0]; outlen = (len(c.split()[1]) // 2) if len(c.split()) > 1 else 0
            if res.violation("well-formed %s: status %s, %d bytes written, expected status 0 and the %d bytes of the target" % (lab, st, outlen, len(plain)), sc.text(), key="c06:target"): nbad += 1
        if c != m: diffs.append((lab, sc, m, c))
    res.oblige("search: %d well-formed OAB files / patches decompress to the generator's target (C, ASan+UBSan)" % sum(1 for _, p in meta if p is not None), nbad == 0)
    res.oblige("correspondence: model of oabd.c (LZX port as block decoder) = C library on %d inputs (well-formed and damaged)" % len(lines), not diffs and len(mo) == len(lines), "%d differ %s" % (len(diffs), err[-200:]) if diffs or len(mo) != len(lines) else "")
    res.traces += len(lines)
    res.samples = [meta[0][0], meta[3][0]] if len(meta) > 3 else []
    if diffs or not proofs_ok:
        def s():
            for lab, sc, m, c in diffs[:2]:
                res.violation("model of oabd.c and the C library disagree on %s: C '%s' (%d) | model '%s' (%d)" % (lab, c[:60], len(c), m[:60], len(m)), sc.text(), found_input=False)
        proof_broken(res, "C06", s)
    return "proof"
