"""C12 search on the implementation: single-byte corruption of checksummed CFDATA blocks, strict mode."""
import struct, random
import vlib
from vlib import cabfmt, scenario

def _blocks(cab):
    """(offset of CFDATA header, cbytes) for every block of a single cabinet without reserve areas beyond what the header says"""
    nfold = struct.unpack_from("<H", cab, 26)[0]; flags = struct.unpack_from("<H", cab, 30)[0]
    p = 36; dres = 0; fres = 0
    if flags & 4:
        hres, fres, dres = struct.unpack_from("<HBB", cab, p); p += 4 + hres
    for bit in (1, 2):
        if flags & bit:
            for _ in range(2): p = cab.index(b"\0", p) + 1
    res = []
    for i in range(nfold):
        off, nblk, ct = struct.unpack_from("<IHH", cab, p); p += 8 + fres
        q = off
        for b in range(nblk):
            ck, cb, ub = struct.unpack_from("<IHH", cab, q); res.append((q, cb, dres, ck)); q += 8 + dres + cb
    return res

def search(res, tier, rng):
    ok, log, exe = vlib.build_impl("asan")
    if not ok:
        res.oblige("C harness builds (asan)", False, log[-500:]); return
    nsets = 7 if tier == "quick" else 63
    per = 40 if tier == "quick" else 400
    scns = []; meta = []
    for s in range(nsets):
        method = [("none",), ("mszip",), ("lzx", 16), ("qtm", 15), ("none",), ("mszip",), ("mszip",)][s % 7]
        lens = [rng.choice([1, 2, 3, 5, 100, 700]), rng.choice([0, 4, 33000, 1500, 33000])]
        if s % 7 in (4, 5): lens = [rng.choice([5, 100, 700]), rng.choice([33000, 66000])]     # several blocks: damage in one block, members reaching the others
        if s % 7 == 6: lens = [40000, 60000]      # four blocks, the first member ends two blocks before the folder does: a damaged block must not simply drop out of the stream
        if method[0] in ("lzx", "qtm"): mem = [cabfmt.Member(b"a.bin", length=lens[0]), cabfmt.Member(b"b.bin", length=lens[1])]
        else: mem = cabfmt.random_members(rng, 2, lens=lens)
        f = cabfmt.Folder(method, mem)
        cab = cabfmt.build_single([f], rng, hres=rng.choice([None, b"", b"hh"]), dres=rng.choice([b"", b"r"]))
        blocks = [b for b in _blocks(cab) if b[3] != 0]
        base = scenario.Scn().file("in.cab", cab).op("cab_new").op("cab_open", "c0", "in.cab")
        for i in range(len(mem)): base.op("cab_extract", "c0", i, "out%d" % i)
        scns.append(base); meta.append(("orig", cab, None, mem))
        for _ in range(per):
            q, cb, dres, ck = rng.choice(blocks)
            region = rng.choice(["payload", "payload", "sizes", "cksum"])
            if region == "payload" and cb > 0: pos = q + 8 + dres + rng.randrange(cb)
            elif region == "sizes": pos = q + 6 + rng.randrange(2)     # uncompressed-size field (compressed size changes the framing itself)
            else: pos = q + rng.randrange(4)
            newv = rng.choice([x for x in (0, 255, cab[pos] ^ 1, cab[pos] ^ 0x80, rng.randrange(256)) if x != cab[pos]])
            bad = bytearray(cab); bad[pos] = newv
            sc = scenario.Scn().file("in.cab", bytes(bad)).op("cab_new").op("cab_open", "c0", "in.cab")
            later = [b for b in blocks if b[0] > blocks[0][0]]
            if method[0] == "none" and later and q != blocks[0][0] and rng.random() < 0.6:   # stored folders only: a compressed decoder may legitimately have read ahead into the next block while still in relaxed mode
                # relaxed-then-strict history on one decompressor: the first member (block 0) is extracted with SALVAGE or FIXMSZIP on,
                # the mode is switched back to strict, and the member reaching the corrupted later block is extracted strictly
                par = rng.choice([3, 1])
                sc.op("cab_param", par, 1).op("cab_extract", "c0", 0, "out0").op("cab_param", par, 0)
                for i in range(1, len(mem)): sc.op("cab_extract", "c0", i, "out%d" % i)
                region = region + "+flip"
                scns.append(sc); meta.append((region, bytes(bad), pos, mem))
                continue
            if rng.random() < 0.35:
                # the last member first on the fresh decompressor: the blocks before it are decoded with the output discarded - damage in a
                # block that is only skipped over is damage all the same (it carries history, and usually the member's first bytes)
                for i in reversed(range(len(mem))): sc.op("cab_extract", "c0", i, "out%d" % i)
                for i in range(len(mem)): sc.op("cab_extract", "c0", i, "out%d" % i)
                scns.append(sc); meta.append((region + "+skip", bytes(bad), pos, mem))
                continue
            for i in range(len(mem)):      # each member twice in a row, then all once more: a failed call must not make a later one accept the damage
                sc.op("cab_extract", "c0", i, "out%d" % i); sc.op("cab_extract", "c0", i, "out%d" % i)
            for i in range(len(mem)): sc.op("cab_extract", "c0", i, "out%d" % i)
            scns.append(sc); meta.append((region, bytes(bad), pos, mem))
    trs = scenario.run_scenarios(exe, scns)
    nviol = 0
    for t, (region, cab, pos, mem), sc in zip(trs, meta, scns):
        res.evaluations += 1
        if t.crash:
            res.violation("sanitizer report / crash on a cabinet with one corrupted byte: " + t.crash[-300:], sc.text() + "\n# " + t.crash[-1500:], key="crash")
            continue
        ex = [o for o in t.ops if o.name == "cab_extract"]
        seen0 = False
        for o in ex:
            i = int(o.outname[3:]) if o.outname and o.outname.startswith("out") else 0
            if region.endswith("+flip") and i == 0 and not seen0: seen0 = True; continue      # extracted in relaxed mode: nothing is claimed for it
            want = mem[i].data.hex()
            if region == "orig":
                good = o.kv.get("st") == "0" and (o.out or "") == want
                res.oblige("generator sanity: uncorrupted cabinet extracts (member %d)" % i, good, str(o.kv)) if not good else None
            else:
                res.nontrivial.add((region, pos, cab[pos]))
                res.count("tamper:" + region)
                if o.kv.get("st") == "0" and (o.out or "") != want:
                    nviol += 1
                    res.violation("strict-mode extract returned OK with altered bytes after corrupting byte %d (%s)" % (pos, region), sc.text(), key="cab-tamper-accepted")
    res.oblige("search: no corrupted checksummed block accepted with different content (%d corrupted cabinets)" % (len(scns) - nsets), nviol == 0)
    if len(res.samples) < 5: res.samples.append(scns[1].text()[:300] + "...")


def search_sets(res, tier, rng):
    """the same for cabinet sets: one corrupted payload byte in any part, including the fragments of blocks split across two cabinets
    (a leading fragment carries its own checksum); strict mode, parts joined in order, every member extracted"""
    from vlib import gen
    ok, log, exe = vlib.build_impl("asan")
    if not ok: return
    nsets = 3 if tier == "quick" else 40; per = 30 if tier == "quick" else 150
    scns = []; meta = []
    for s_ in range(nsets):
        c = gen.cab_set(rng); parts = [c.files[nm] for nm in c.parts]
        def scn_for(ps):
            sc = scenario.Scn()
            for k, b in enumerate(ps): sc.file("in%d.cab" % k, b)
            sc.op("cab_new")
            for k in range(len(ps)): sc.op("cab_open", "c%d" % k, "in%d.cab" % k)
            for k in range(1, len(ps)): sc.op("cab_append", "c%d" % (k - 1), "c%d" % k)
            for i in range(len(c.members)): sc.op("cab_extract", "c0", i, "out%d" % i)
            return sc
        scns.append(scn_for(parts)); meta.append(("orig", None, c.members))
        cand = []        # (part, block offset, cbytes, dres, is leading fragment)
        for k, pb in enumerate(parts):
            try: bl = _blocks(pb)
            except Exception: continue
            for (q, cb, dres, ck) in bl:
                if ck != 0 and cb > 0: cand.append((k, q, cb, dres, struct.unpack_from("<H", pb, q + 6)[0] == 0))
        lead = [x for x in cand if x[4]]
        if not cand: continue
        for j in range(per):
            k, q, cb, dres, isl = rng.choice(lead) if (lead and j % 2 == 0) else rng.choice(cand)
            pos = q + 8 + dres + rng.randrange(cb)
            bad = bytearray(parts[k]); bad[pos] ^= rng.choice([1, 0x80, 0xFF, 1 << rng.randrange(8)])
            ps = list(parts); ps[k] = bytes(bad)
            scns.append(scn_for(ps)); meta.append(("set-fragment" if isl else "set-block", (k, pos), c.members))
    trs = scenario.run_scenarios(exe, scns)
    nviol = 0; ntam = 0
    for t, (region, where, mem), sc in zip(trs, meta, scns):
        res.evaluations += 1
        if t.crash:
            res.violation("sanitizer report / crash on a cabinet set with one corrupted byte: " + t.crash[-300:], sc.text() + "\n# " + t.crash[-1500:], key="crash"); continue
        for o in [o for o in t.ops if o.name == "cab_extract"]:
            i = int(o.outname[3:]); want = mem[i].data.hex()
            if region == "orig":
                if not (o.kv.get("st") == "0" and (o.out or "") == want): res.oblige("generator sanity: uncorrupted set extracts (member %d)" % i, False, str(o.kv))
            else:
                if o.kv.get("st") == "0" and (o.out or "") != want:
                    nviol += 1
                    res.violation("strict-mode extract from a joined set returned OK with altered bytes after corrupting byte %d of part %d (%s)" % (where[1], where[0], region), sc.text(), key="cab-tamper-accepted")
                    break
        if region != "orig": ntam += 1; res.nontrivial.add((region, where)); res.count("tamper:" + region)
    res.oblige("search: no corrupted checksummed block or block fragment of a cabinet set accepted with different content (%d corrupted sets)" % ntam, nviol == 0)
