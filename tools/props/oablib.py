"""Shared by C06: OAB / patch case generation aimed at window-size boundaries, model <-> C comparison."""
import random, struct
import vlib
from vlib import oabfmt, scenario

def full_case(rng, big=False):
    nb = rng.choice([1, 2, 2, 3])
    sizes = [rng.choice([0, 1, 100, 5000, 32768, 40000] + ([131072, 131073, 140000, 262145] if big else [])) for _ in range(nb)]
    # padding after LZX blocks that are followed by another block: 1 byte is the interesting case (and 0, and several)
    oab, plain = oabfmt.build_full(rng, sizes, pad=[rng.choice([0, 1, 1, 2, 7]) for _ in sizes])
    return oab, plain, "full sizes=%s" % sizes

def full_case_padfit(rng, bs):
    """LZX blocks whose stream + padding leave exactly k (0, 1, 2) bytes unread by a decoder that fetches bs bytes at a time"""
    sizes = [rng.choice([100, 5000, 32768]) for _ in range(rng.choice([2, 3]))]; k = rng.choice([1, 1, 2, 0])
    oab, plain = oabfmt.build_full(rng, sizes, kinds=[1] * len(sizes), pad_fn=lambda i, n: ((k - n) % bs) or (bs if k else 0))
    return oab, plain, "full padfit sizes=%s k=%d" % (sizes, k)

def patch_sizes_at_boundary(rng):
    """(ssize, dsize) with round32k(ssize) + dsize just above 2^k while round32k(ssize + dsize) is not"""
    k = rng.choice([17, 17, 18])
    ss = rng.choice([1, 100, 32769, 40000, 65537]) ; r = (ss + 32767) & ~32767
    ds = (1 << k) - r + rng.choice([1, 2, 100])
    if ds <= 0: ds = rng.choice([1, 100])
    return ss, ds

def patch_case(rng, big=False):
    nb = rng.randrange(1, 3)
    blocks = []
    for _ in range(nb):
        r = rng.random()
        if big and r < 0.25: blocks.append((1 << rng.choice([17, 17, 18]), 0))      # a block that only drops base data: the reference data fills the window exactly
        elif big and r < 0.7: blocks.append(patch_sizes_at_boundary(rng))
        else: blocks.append((rng.choice([0, 10, 5000, 32768, 32769, 40000]), rng.choice([1, 100, 5000, 40000, 70000])))
    pt, base, plain = oabfmt.build_patch(rng, blocks)
    return pt, base, plain, "patch blocks=%s" % blocks

def scn_full(oab, bs): return scenario.Scn().file("in.oab", oab).op("oab_new").op("oab_param", 0, bs).op("oab_decompress", "in.oab", "out0")
def scn_patch(pt, base, bs): return scenario.Scn().file("in.pat", pt).file("in.base", base).op("oab_new").op("oab_param", 0, bs).op("oab_incr", "in.pat", "in.base", "out0")
def c_result(t):
    o = [x for x in t.ops if x.name in ("oab_decompress", "oab_incr")]
    if not o: return "?"
    return "%s %s" % (o[0].kv.get("st"), o[0].out if o[0].out not in (None, "absent") else "")
def model_line_full(oab, bs): return "F %d - %s" % (bs, vlib.hexs(oab))
def model_line_patch(pt, base): return "P 0 %s %s" % (vlib.hexs(base), vlib.hexs(pt))

def damage(rng, b, hdr):
    b = bytearray(b); r = rng.random()
    if r < 0.4:
        for _ in range(rng.choice([1, 1, 3])): b[rng.randrange(len(b))] ^= 1 << rng.randrange(8)
    elif r < 0.6: b = b[:rng.randrange(len(b))]
    elif r < 0.8 and len(b) >= hdr + 16:
        # a block header field
        off = hdr + 4 * rng.randrange(4); struct.pack_into("<I", b, off, rng.choice([0, 1, 2, 16, 0x7FFFFFFF, 0xFFFFFFFF, struct.unpack_from("<I", b, off)[0] + rng.choice([-1, 1])]) & 0xFFFFFFFF)
    else:
        off = 4 * rng.randrange(hdr // 4); struct.pack_into("<I", b, off, rng.choice([0, 1, 2, 3, 16, 0xFFFFFFFF, (struct.unpack_from("<I", b, off)[0] + rng.choice([-1, 1])) & 0xFFFFFFFF]))
    return bytes(b)
