"""C19 — separate instances are independent, so one-instance-per-thread use is safe."""
import random
import vlib
from vlib import scenario, gen, cabfmt, chmfmt, lzxenc
from props.common import proof_broken

EXPLANATION = ("Theorem: the regenerated list of static-storage objects of the library (nm on the objects built from the tree + clang AST of each unit) has no writable "
  "object with a store or with its address reaching a non-const pointer.  Search: two to three decompressor instances are driven in an interleaved hand-over order "
  "on different archives (LZX with E8 translation, Quantum, MSZIP, CHM, KWAJ) in one process; every call must return exactly what the same call returns when its "
  "instance runs alone.  Real thread schedules are not explored (a race needs shared mutable state, which is what the theorem excludes).")

def e8_cab(rng, n):
    """LZX folder with the Intel E8 translation active (header bit set, 0xE8 literals)"""
    total = rng.choice([3000, 40000, 70000]); cuts = []
    stream, plain = lzxenc.encode(rng, 16, total, e8=True, cuts=cuts)
    nfr = (total + 32767) // 32768
    cuts = sorted(set(c for c in cuts if 0 < c < len(stream)))
    if len(cuts) != nfr - 1: cuts = [len(stream) * (i + 1) // nfr for i in range(nfr - 1)]
    parts = [stream[a:b] for a, b in zip([0] + cuts, cuts + [len(stream)])]
    lens = [total // 3, total - total // 3]
    files = [(b"e8a.bin", lens[0], 0, 0, 1, 1, 0x20), (b"e8b.bin", lens[1], lens[0], 0, 1, 1, 0x20)]
    return cabfmt.build_cab([(3 | (16 << 8), [(p, min(32768, total - 32768 * i)) for i, p in enumerate(parts)])], files), 2

def run(res, tier, replay):
    rng = random.Random(vlib.seed() * 179424673 + 19)
    res.rule = ("interleaving = round-robin / random hand-over between 2-3 instances each extracting the members of its own archive one call at a time; oracle = the same "
                "instance's calls run alone; non-trivial = distinct (archives, interleaving)")
    proofs_ok = vlib.coq_gate(res, "Properties_C19")
    ok, log, exe = vlib.build_impl("asan")
    if not ok: res.oblige("C harness builds", False, log[-300:]); proof_broken(res, "C19"); return "proof"
    n = 10 if tier == "quick" else 120
    scns = []; meta = []
    for i in range(n):
        ninst = rng.choice([2, 2, 3]); insts = []
        for k in range(ninst):
            kind = "e8" if i % 2 == 0 else rng.choice(["e8", "cab", "cab", "chm"])
            if kind == "e8":
                cab, nm = e8_cab(rng, k); insts.append(("cab", {"in%d.cab" % k: cab}, nm))
            elif kind == "cab":
                c = gen.cab_single(rng, big=True, nfolders=1, methods=[rng.choice([("lzx", 16), ("qtm", 16), ("mszip",)])])
                insts.append(("cab", {"in%d.cab" % k: c.files["in0.cab"]}, len(c.members)))
            else:
                try: chm, exp = chmfmt.build([(b"/a", b"hi")], [(b"/c0", 40000), (b"/c1", 30000)], rng, chunk_size=512, density=1, wbits=16, reset_frames=1)
                except ValueError: continue
                insts.append(("chm", {"in%d.chm" % k: chm}, 3))
        if len(insts) < 2: continue
        def ops_for(k, inst):
            kind, files, nm = inst; fname = list(files)[0]
            if kind == "cab": return [("cab_new",), ("cab_open", "c0", fname)] + [("cab_extract", "c0", m, "out%d_%d" % (k, m)) for m in range(nm)]
            return [("chm_new",), ("chm_open", "h0", fname)] + [("chm_extract", "h0", m, "out%d_%d" % (k, m)) for m in range(nm)]
        seqs = [ops_for(k, inst) for k, inst in enumerate(insts)]
        # solo runs
        for k, inst in enumerate(insts):
            sc = scenario.Scn()
            for f, d in inst[1].items(): sc.file(f, d)
            sc.lines.append("inst %d" % k)
            for op in seqs[k]: sc.op(*op)
            scns.append(sc); meta.append(("solo", i, k))
        # interleaved run
        sc = scenario.Scn()
        for inst in insts:
            for f, d in inst[1].items(): sc.file(f, d)
        ptr = [0] * len(insts)
        while any(ptr[k] < len(seqs[k]) for k in range(len(insts))):
            k = rng.choice([k for k in range(len(insts)) if ptr[k] < len(seqs[k])])
            sc.lines.append("inst %d" % k); sc.op(*seqs[k][ptr[k]]); ptr[k] += 1
        scns.append(sc); meta.append(("mixed", i, None))
    trs = scenario.run_scenarios(exe, scns)
    solo = {}
    for t, m in zip(trs, meta):
        if m[0] == "solo":
            solo[(m[1], m[2])] = {o.outname: (o.kv.get("st"), o.out) for o in t.ops if o.outname}
    nbad = 0; ncalls = 0
    for t, m, sc in zip(trs, meta, scns):
        if m[0] != "mixed": continue
        res.evaluations += 1; res.nontrivial.add((m[1], hash(sc.text())))
        if t.crash or t.hang:
            if res.violation("crash/hang with interleaved instances: %s" % (t.crash or "hang")[-200:], sc.text(), key="crash"): nbad += 1
            continue
        for o in t.ops:
            if not o.outname: continue
            k = int(o.outname[3:].split("_")[0]); ncalls += 1
            want = solo.get((m[1], k), {}).get(o.outname)
            if want is not None and (o.kv.get("st"), o.out) != want:
                if res.violation("instance %d: %s of %s gives status %s / %s bytes when another instance works in between, status %s alone" % (k, o.name, o.outname, o.kv.get("st"), o.outlen, want[0]), sc.text(), key="interference"): nbad += 1
                break
    res.oblige("search: %d calls of interleaved instances equal their stand-alone results" % ncalls, nbad == 0)
    res.traces += ncalls
    res.samples = [" | ".join(l for l in s.lines if not l.startswith("file "))[:300] for s, m in zip(scns, meta) if m[0] == "mixed"][:2]
    if not proofs_ok:
        proof_broken(res, "C19")
    return "proof"
