"""C13 — cabinet sets join consistently in any order; bad joins change nothing."""
import random, itertools
import vlib
from vlib import scenario, gen, cabfmt
from props.common import proof_broken

EXPLANATION = ("Theorems: the list-level merge (folder absorption with the shared split block counted once, deletion of the duplicate continued-file entries) is "
  "associative for three consecutive parts, with multi-folder and single-folder (continued on both sides) middle parts.  Tie and search: generated sets of 2-4 parts "
  "(every split pattern of the generator, different reserve sizes per part) joined in every order of adjacent joins with random append/prepend choice: after the "
  "last join the file and folder lists seen from every member are identical, equal the generator's members, and every member extracts to its plaintext; refused "
  "joins (null, self, repeated, circular, unrelated cabinet with mismatching split folder) return an error and leave the listings of both cabinets unchanged.")

def spans(c):
    """folder index -> set of part indices holding some of its blocks (from the generator's cut list)"""
    sp = {}; k = 0; cuts = list(c.cuts)
    for fi, f in enumerate(c.folders):
        for bi in range(len(f.blocks)):
            while cuts and cuts[0][0] == fi and cuts[0][1] == bi:
                sp.setdefault(fi, set()).add(k); k += 1; cuts.pop(0)
            sp.setdefault(fi, set()).add(k)
        if not f.blocks: sp.setdefault(fi, set()).add(k)
        if cuts and cuts[0][0] == fi and cuts[0][1] == "end": k += 1; cuts.pop(0)      # a cabinet boundary between two folders
    return sp

def listing(op):
    return tuple(l for l in op.lines if l.startswith(" file ") or l.startswith(" folder "))

def alter_part(cab, variant):
    """a copy of a cabinet that continues a folder from its predecessor, changed so that the join must be refused"""
    import struct
    b = bytearray(cab); flags = struct.unpack_from("<H", b, 30)[0]; pos = 36; fres = 0
    if flags & 4:
        hres, fres, bres = struct.unpack_from("<HBB", b, pos); pos += 4 + hres
    for bit in (1, 2):
        if flags & bit:
            for _ in range(2):
                while b[pos]: pos += 1
                pos += 1
    nfiles = struct.unpack_from("<H", b, 28)[0]; p = struct.unpack_from("<I", b, 16)[0]; hit = False
    for _ in range(nfiles):
        fidx = struct.unpack_from("<H", b, p + 8)[0]
        if fidx in (0xFFFD, 0xFFFF):
            hit = True
            if variant == "nocommon": struct.pack_into("<I", b, p + 4, (struct.unpack_from("<I", b, p + 4)[0] + 1) & 0xFFFFFFFF)
        p += 16
        while b[p]: p += 1
        p += 1
    if variant == "comptype": b[pos + 7] ^= 1      # high byte of the first folder's compression type (window bits; unused for MSZIP and none)
    return bytes(b) if hit else None

def run(res, tier, replay):
    rng = random.Random(vlib.seed() * 32452843 + 13)
    res.rule = ("per generated set: all permutations of the adjacent joins (n <= 4), each join as append or prepend at random; listings from every member compared; all "
                "members extracted; refusal scenarios: join attempts that must fail, listings before/after compared; non-trivial = distinct (set, order)")
    proofs_ok = vlib.coq_gate(res, "Properties_C13")
    ok, log, exe = vlib.build_impl("asan")
    if not ok: res.oblige("C harness builds", False, log[-300:]); proof_broken(res, "C13"); return "proof"
    nsets = 8 if tier == "quick" else 80
    scns = []; meta = []
    for s in range(nsets):
        c = gen.cab_set(rng); n = len(c.parts)
        joins = list(range(1, n))
        orders = list(itertools.permutations(joins))
        if len(orders) > (6 if tier == "quick" else 24): orders = rng.sample(orders, 6 if tier == "quick" else 24)
        for oi, order in enumerate(orders):
            sc = scenario.Scn()
            # in every other order one part (not the first) lies behind a stub inside its file and is found by search(): offsets inside it
            # are relative to where it starts
            emb = rng.randrange(1, n) if (oi % 2 == 0 and n > 1) else -1
            for k, nm in enumerate(c.parts): sc.file("in%d.cab" % k, (bytes(rng.choice(b"stub \x00\xff") for _ in range(rng.choice([1, 777, 5000]))) if k == emb else b"") + c.files[nm])
            sc.op("cab_new").op("ledger_now")
            for k in range(n): sc.op("cab_search" if k == emb else "cab_open", "c%d" % k, "in%d.cab" % k)
            # every third order: the first member of the first part is extracted BEFORE the parts are joined (its folder's decoder is alive
            # while the join makes the folder longer); all members are extracted after the join as usual
            # (only when that member lies wholly in the complete blocks of the first part: a failed extraction is C08's business)
            # (compressed folders read input ahead, into the split block: there the call may fail for want of the next part)
            fc_ = c.cuts[0]; whole0 = fc_[0] > 0 or fc_[1] == "end" or (c.folders[0].method[0] == "none" and 0 < c.members[0].length <= 32768 * fc_[1])
            if oi % 3 == 1 and whole0: sc.op("cab_extract", "c0", 0, "outpre0")
            for k in order:
                if rng.random() < 0.5: sc.op("cab_append", "c%d" % (k - 1), "c%d" % k)
                else: sc.op("cab_prepend", "c%d" % k, "c%d" % (k - 1))
            for k in range(n): sc.op("cab_list", "c%d" % k)
            sc.op("cab_extract_all", "c%d" % rng.randrange(n), "out", 50)
            # close() through any member releases the whole set: everything allocated and opened since create is gone again
            sc.op("cab_close_any", "c%d" % rng.randrange(n))
            scns.append(sc); meta.append(("order", s, order, c))
        # refusals on this set
        sc = scenario.Scn()
        for k, nm in enumerate(c.parts): sc.file("in%d.cab" % k, c.files[nm])
        sc.op("cab_new")
        for k in range(n): sc.op("cab_open", "c%d" % k, "in%d.cab" % k)
        sc.op("cab_list", "c0").op("cab_list", "c1")
        for b in [("cab_append", "c0", "c0"), ("cab_append", "c0", "null"), ("cab_prepend", "c0", "c0"), ("cab_prepend", "c1", "null")]: sc.op(*b)
        sc.op("cab_list", "c0").op("cab_list", "c1")
        sc.op("cab_append", "c0", "c1")
        sc.op("cab_append", "c0", "c1").op("cab_append", "c1", "c0").op("cab_prepend", "c0", "c1")      # already joined / circular
        for k in range(2, n): sc.op("cab_append", "c%d" % (k - 1), "c%d" % k)
        if n > 2: sc.op("cab_append", "c%d" % (n - 1), "c0").op("cab_prepend", "c0", "c%d" % (n - 1))   # closing the chain into a ring
        sc.op("cab_list", "c0").op("cab_extract_all", "c0", "out", 50)
        scns.append(sc); meta.append(("refuse", s, None, c))
        # a cabinet of another set whose first folder continues from a predecessor: the split folders do not match
        other = gen.cab_set(rng)
        sc = scenario.Scn().file("in0.cab", c.files[c.parts[0]]).file("inx.cab", other.files[other.parts[-1]])
        sc.op("cab_new").op("cab_open", "c0", "in0.cab").op("cab_open", "c9", "inx.cab").op("cab_list", "c0").op("cab_list", "c9")
        sc.op("cab_append", "c0", "c9").op("cab_list", "c0").op("cab_list", "c9")
        scns.append(sc); meta.append(("mismatch", s, None, c))
        # the right-hand part of this very set, altered so that the split folders must not be merged:
        # (a) same method, other window size / parameter byte; (b) the continued files start at other offsets (no file in common)
        for variant in ("comptype", "nocommon"):
            alt = alter_part(c.files[c.parts[1]], variant)
            if alt is None: continue
            sc = scenario.Scn().file("in0.cab", c.files[c.parts[0]]).file("inx.cab", alt)
            sc.op("cab_new").op("cab_open", "c0", "in0.cab").op("cab_open", "c9", "inx.cab").op("cab_list", "c0").op("cab_list", "c9")
            sc.op("cab_append", "c0", "c9").op("cab_list", "c0").op("cab_list", "c9")
            scns.append(sc); meta.append(("mustrefuse-" + variant, s, None, c))
        # only ONE side has a folder that continues across the boundary (the other cabinet is complete in itself): not a pair
        plain_cab = gen.cab_single(rng, nfolders=1, methods=[("none",)]); pc = cabfmt.build_single(plain_cab.folders, rng)
        first_splits = bool(c.cuts) and c.cuts[0][1] != "end"
        last_cont = bool(c.cuts) and c.cuts[-1][1] != "end"
        for left, right, okk in ((c.files[c.parts[0]], pc, first_splits), (pc, c.files[c.parts[-1]], last_cont)):
            if not okk: continue
            sc = scenario.Scn().file("in0.cab", left).file("inx.cab", right)
            sc.op("cab_new").op("cab_open", "c0", "in0.cab").op("cab_open", "c9", "inx.cab").op("cab_list", "c0").op("cab_list", "c9")
            sc.op("cab_append", "c0", "c9").op("cab_list", "c0").op("cab_list", "c9")
            scns.append(sc); meta.append(("mustrefuse-onesided", s, None, c))
    # directed (own generator state, the same on every run): a folder spanning three or more cabinets whose later parts are joined first -
    # the recorded finding merge:order:later-parts-first (known_findings.json)
    r13 = random.Random(13)
    for _ in range(200):
        c = gen.cab_set(r13); sp_ = spans(c); wide = [f for f, ps in sp_.items() if len(ps) >= 4]
        if not wide: continue
        n = len(c.parts); ps = sorted(sp_[wide[0]]); k0 = ps[2]; k1 = ps[3]           # the folder's second and third part first, then the fourth
        order = tuple([k0, k1] + [k for k in range(1, n) if k not in (k0, k1)])
        sc = scenario.Scn()
        for k, nm in enumerate(c.parts): sc.file("in%d.cab" % k, c.files[nm])
        sc.op("cab_new").op("ledger_now")
        for k in range(n): sc.op("cab_open", "c%d" % k, "in%d.cab" % k)
        for k in order: sc.op("cab_append", "c%d" % (k - 1), "c%d" % k)
        for k in range(n): sc.op("cab_list", "c%d" % k)
        sc.op("cab_extract_all", "c0", "out", 50)
        scns.append(sc); meta.append(("order", 9000, order, c))
        break
    # directed (own generator state): two-part sets of one stored folder whose second block is cut at the
    # cabinet boundary; the member that lies in the first block is extracted, THEN the parts are joined, then every member is extracted
    for di, meth in enumerate((("none",), ("none",))):          # (a compressed folder reads ahead into the split block and may fail before the join)
        r13b = random.Random(1313 + di)
        fo = cabfmt.Folder(meth, [cabfmt.Member(b"j%d.bin" % j, data=bytes(r13b.randrange(256) for _ in range(ln))) for j, ln in enumerate([3000, 40000, 30000])])
        for m_ in fo.members: m_.length = len(m_.data)
        c = gen.CabCase(); c.folders = [fo]; fo.prepare(r13b)
        cabs_, names_ = cabfmt.build_set([fo], [(0, 1, 5000)], r13b, names=[b"j1.cab", b"j2.cab"])
        for cb_, nm_ in zip(cabs_, names_): c.files[nm_.decode()] = cb_; c.parts.append(nm_.decode())
        c.members = list(fo.members); c.cuts = [(0, 1, 5000)]
        sc = scenario.Scn()
        for k, nm in enumerate(c.parts): sc.file("in%d.cab" % k, c.files[nm])
        sc.op("cab_new").op("ledger_now").op("cab_open", "c0", "in0.cab").op("cab_open", "c1", "in1.cab").op("cab_extract", "c0", 0, "outpre0")
        sc.op("cab_append" if di == 0 else "cab_prepend", *(("c0", "c1") if di == 0 else ("c1", "c0")))
        sc.op("cab_list", "c0").op("cab_list", "c1").op("cab_extract_all", "c0", "out", 50, 1).op("cab_close_any", "c1")        # last member first: the live decoder goes on
        scns.append(sc); meta.append(("order", 9100 + di, (1,), c))
    trs = scenario.run_scenarios(exe, scns)
    nbad = 0; refl = {}
    for t, (kind, s, order, c), sc in zip(trs, meta, scns):
        res.evaluations += 1; res.nontrivial.add((kind, s, order)); res.count(kind)
        if t.crash or t.hang:
            if res.violation("crash/hang while joining a set: %s" % (t.crash or "hang")[-200:], sc.text(), key="crash"): nbad += 1
            continue
        why = None
        lists = [o for o in t.ops if o.name == "cab_list"]
        exs = [o for o in t.ops if o.name == "cab_extract" and not (o.outname or "").startswith("outpre")]
        pre = [o for o in t.ops if o.name == "cab_extract" and (o.outname or "").startswith("outpre")]
        if s >= 9100: exs = sorted(exs, key=lambda o: int((o.outname or "out0")[3:]))          # (extracted in reverse order there)
        want_files = [(m.name.hex(), m.length) for m in c.members]
        def files_of(op): return [(dict(x.split("=", 1) for x in l.split()[1:])["name"], int(dict(x.split("=", 1) for x in l.split()[1:])["len"])) for l in op.lines if l.startswith(" file ")]
        if kind == "order":
            joins_ = [o for o in t.ops if o.name in ("cab_append", "cab_prepend")]
            if any(o.kv.get("st") != "0" for o in joins_):
                why = "a join of matching parts was refused: %s" % [o.kv for o in joins_]
                # classify: was the refused join one between later parts of a folder spanning >= 3 cabinets, made before that folder's first part was attached?
                joined = [set([k]) for k in range(len(c.parts))]
                def chain(k): return next(ch for ch in joined if k in ch)
                cls = "merge:order"
                for k, o in zip(order, joins_):
                    if o.kv.get("st") != "0":
                        span = spans(c)
                        fol = [f for f, ps in span.items() if k - 1 in ps and k in ps]
                        if fol and min(span[fol[0]]) not in chain(k - 1) and len(span[fol[0]]) >= 3: cls = "merge:order:later-parts-first"
                        break
                    a, b = chain(k - 1), chain(k)
                    if a is not b: joined.remove(b); a.update(b)
                if res.violation("set %d (%s): %s" % (s, kind, why[:300]), sc.text(), key=cls): nbad += 1
                continue
            elif len({listing(o) for o in lists}) != 1: why = "members of the joined set see different file/folder lists"
            elif files_of(lists[0]) != want_files: why = "joined file list %s differs from the set's members %s" % (files_of(lists[0])[:4], want_files[:4])
            else:
                key = s
                if key in refl and refl[key] != listing(lists[0]): why = "join order %s gives different lists than another order" % (order,)
                refl.setdefault(key, listing(lists[0]))
                for o, m in zip(exs, c.members):
                    if o.kv.get("st") != "0" or (o.out or "") != m.data.hex(): why = "member %s extracts wrongly after joining in order %s (st=%s)" % (m.name, order, o.kv.get("st")); break
                # a member extracted before the join: OK with its bytes when it lies wholly in the first part, otherwise any non-OK status
                for o in pre:
                    if o.kv.get("st") != "0" or (o.out or "") != c.members[0].data.hex(): why = "member 0 (wholly in the first part) extracted before the join: st=%s" % o.kv.get("st")
                l0 = [o for o in t.ops if o.name == "ledger_now"]; ca = [o for o in t.ops if o.name == "cab_close_any"]
                if not why and l0 and ca and (ca[0].kv.get("open_handles") != "0" or ca[0].kv.get("live_allocs") != l0[0].kv.get("live_allocs")):
                    why = "close() through one member of the joined set left %s handle(s) open and %s allocation(s) (after create: %s)" % (ca[0].kv.get("open_handles"), ca[0].kv.get("live_allocs"), l0[0].kv.get("live_allocs"))
        elif kind == "refuse":
            before = [listing(o) for o in lists[:2]]; after = [listing(o) for o in lists[2:4]]
            js = [o for o in t.ops if o.name in ("cab_append", "cab_prepend")]
            nparts = len(c.parts)
            must_fail = js[:4] + js[5:8] + (js[8 + nparts - 2:] if nparts > 2 else [])
            good = [js[4]] + js[8:8 + nparts - 2]
            if any(o.kv.get("st") == "0" for o in must_fail): why = "a join that must be refused succeeded: %s" % [(o.name, o.kv) for o in must_fail]
            elif any(o.kv.get("st") != o.kv.get("err") for o in js): why = "last_error differs from a join's status"
            elif before != after: why = "a refused join changed a cabinet's lists"
            elif any(o.kv.get("st") != "0" for o in good): why = "a good join between the refusals failed: %s" % [o.kv for o in good]
            elif files_of(lists[-1]) != want_files: why = "file list after the refusals differs from the set's members"
            elif t.ledger.get("live_allocs") or t.ledger.get("open_handles") or t.viol: why = "ledger not clean after refusals: %s %s" % (t.ledger, t.viol[:2])
            else:
                for o, m in zip(exs, c.members):
                    if o.kv.get("st") != "0" or (o.out or "") != m.data.hex(): why = "member %s extracts wrongly after refused joins (st=%s)" % (m.name, o.kv.get("st")); break
        else:
            js = [o for o in t.ops if o.name == "cab_append"]
            if kind.startswith("mustrefuse") and js and js[0].kv.get("st") == "0":
                why = "split folders that do not match (%s) were merged" % kind.split("-")[1]
            elif js and js[0].kv.get("st") != "0":
                if [listing(o) for o in lists[:2]] != [listing(o) for o in lists[2:4]]: why = "a refused join of non-matching cabinets changed their lists"
                elif js[0].kv.get("st") != js[0].kv.get("err"): why = "last_error differs from the refusal's status"
                elif t.ledger.get("live_allocs") or t.ledger.get("open_handles") or t.viol: why = "cabinets not separately closable after a refused join: %s %s" % (t.ledger, t.viol[:2])
        if why:
            if res.violation("set %d (%s): %s" % (s, kind, why[:300]), sc.text(), key="merge:" + kind): nbad += 1
    res.oblige("search: %d join orders and %d refusal scenarios behave as specified" % (sum(1 for m in meta if m[0] == "order"), sum(1 for m in meta if m[0] == "refuse")), nbad == 0)
    # ---- executable model of cabd_merge / cabd_can_merge_folders / extraction over joined sets (Model/CabSet.v) vs the C library
    from props import cablib
    ok2, log2, mexe = vlib.build_model_drv()
    cases = []
    for i in range(40 if tier == "quick" else 600):
        cs = gen.cab_set(rng); files = [cs.files[nm] for nm in cs.parts]; k = len(files)
        if i % 3 == 2: j = rng.randrange(k); files[j] = cablib.damage(rng, files[j])
        ops = [("o", j) for j in range(k)]
        order = list(range(1, k))
        if rng.random() < 0.5: rng.shuffle(order)
        for j in order: ops.append(("m", j - 1, j, rng.choice(["append", "prepend"])))
        if rng.random() < 0.4: ops.insert(k + rng.randrange(len(order) + 1), ("m", rng.randrange(k), rng.choice([None, rng.randrange(k)]), "append"))
        for j in range(k):
            if rng.random() < 0.6: ops.append(("l", j))
        for _ in range(rng.randrange(1, 7)): ops.append(("x", rng.randrange(k), rng.randrange(len(cs.members) + 1)))
        cases.append((files, rng.random() < 0.25, rng.random() < 0.15, rng.choice([4, 7, 64, 4096, 65536]), ops))
    rc, mo, err = vlib.run_lines(mexe, ["cabset"], [cablib.set_model_line(*c) for c in cases], timeout=3000)
    ctr = scenario.run_scenarios(exe, [cablib.set_scn(*c) for c in cases])
    sdiffs = []; unm = 0
    for c, m, t in zip(cases, mo, ctr):
        res.evaluations += 1
        if t.crash or t.hang: continue
        cc = cablib.set_c_canonical(t)
        if " 98" in m:
            unm += 1; kk = m.rfind("#", 0, m.index(" 98"))
            if cc[:kk] != m[:kk]: sdiffs.append((c, m, cc))
            continue
        if cc != m: sdiffs.append((c, m, cc))
    res.count("setmodel-unmodelled", unm)
    res.oblige("correspondence: model of cabd_merge / cabd_can_merge_folders / extraction over joined sets = C library on %d sessions (all join orders, refusals, 1/3 with a damaged part)" % len(cases),
               not sdiffs and len(mo) == len(cases), "%d differ %s" % (len(sdiffs), err[-200:]) if sdiffs or len(mo) != len(cases) else "")
    for c, m, cc in sdiffs[:2]:
        a = cc.split("#"); b = m.split("#"); kk = next((i for i in range(min(len(a), len(b))) if a[i] != b[i]), min(len(a), len(b)))
        res.violation("model of cabinet sets and the C library disagree (step %d %s: C %s | model %s)" % (kk, c[4][kk - 1] if 0 < kk <= len(c[4]) else "", (a[kk] if kk < len(a) else "-")[:100], (b[kk] if kk < len(b) else "-")[:100]),
                      cablib.set_scn(*c).text(), found_input=False)
    res.traces += len(scns) + len(cases)
    res.samples = [" | ".join(l for l in s.lines if not l.startswith("file "))[:300] for s in scns[:3]]
    if not proofs_ok: proof_broken(res, "C13")
    return "proof"
