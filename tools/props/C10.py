"""C10 — host failures are reported, never turned into silent corruption."""
import random, struct
import vlib
from vlib import scenario, sweep
from props.common import proof_broken
from props import robust

EXPLANATION = ("Theorems: see Properties_C10 (SZDD/LZSS port under every host).  Tie: L2 correspondence (identical callback traces, statuses, last_error and outputs "
  "under every single fault).  Search: every sampled single failure of open/read/write/seek/alloc (write also short) on every corpus scenario of all five formats: "
  "each op either returns non-OK or reproduces the failure-free result; last_error() equals the returned status; wrong signatures are refused with MSPACK_ERR_SIGNATURE.")

def signature_cases(rng):
    out = []
    base = sweep.generated_cases(rng, 2)
    for c in base:
        files = [l for l in c.scn.lines if l.startswith("file ")]
        _, name, hx = files[0].split(" ", 2)
        data = bytearray(bytes.fromhex(hx))
        if c.fmt == "cab": span = range(0, 4)
        elif c.fmt == "chm": span = list(range(0, 4)) + list(range(0x18, 0x38))
        elif c.fmt == "szdd": span = range(0, 8 if data[:4] == b"SZDD" else 8)
        elif c.fmt == "kwaj": span = range(0, 8)
        elif c.fmt in ("oab", "oabp"): span = range(0, 8)
        else: continue
        if len(data) < 64: continue
        pos = rng.choice(list(span)); data[pos] ^= rng.choice([1, 0x20, 0x80, 0xFF])
        sc = c.scn.copy(); sc.lines[sc.lines.index(files[0])] = "file %s %s" % (name, bytes(data).hex())
        out.append((c.fmt, pos, sc))
    return out

def run(res, tier, replay):
    rng = random.Random(vlib.seed() * 7349 + 10)
    res.rule = ("for every scenario of the corpus and every sampled index k of each callback kind: the run with the k-th call failing (write: -1 and short) vs the clean run; "
                "non-trivial = a fault that actually fired; plus signature-byte corruptions of generated files of each format")
    proofs_ok = vlib.coq_gate(res, "Properties_C10")
    robust.l2_szdd(res, tier, rng)
    robust.l2_kwaj(res, tier, rng)
    sw = robust.Sweep(res, tier, rng, fault_per_kind=(3 if tier == "quick" else 16))
    if sw.ok:
        n, checked = robust.fault_oracle(res, sw)
        fired = sum(1 for f in sw.run_faults() if f[5].ledger.get("faults_hit", 0) > 0)
        res.oblige("search: %d fired faults, %d successful ops compared with the failure-free run; last_error() = status on every op" % (fired, checked), n == 0)
        for f in sw.run_faults():
            if f[5].ledger.get("faults_hit", 0) > 0: res.nontrivial.add((f[0], f[1], f[2], f[3]))
        res.extra["faults_fired"] = fired
        sig = signature_cases(rng)
        trs = scenario.run_scenarios(sw.exe, [s for _, _, s in sig])
        nb = 0
        for (fmt, pos, sc), t in zip(sig, trs):
            res.evaluations += 1
            ops = [o for o in t.ops if o.name.endswith("_open") or o.name in ("oab_decompress", "oab_incr", "szdd_decompress", "kwaj_decompress")]
            for o in ops[:1]:
                code = o.kv.get("err", o.kv.get("st"))
                if code != "7":
                    # SZDD: changing a signature byte may turn one valid signature into a prefix of nothing: still must be 7
                    if res.violation("%s file with signature byte %d altered was answered with %s, not MSPACK_ERR_SIGNATURE" % (fmt, pos, code), sc.text(), key="signature:" + fmt): nb += 1
        res.oblige("search: %d files with a corrupted signature byte refused with MSPACK_ERR_SIGNATURE" % len(sig), nb == 0)
        for c in sw.cases[:2]: res.samples.append(c.label + " :: " + " | ".join(l for l in c.scn.lines if not l.startswith("file "))[:300])
    if not proofs_ok: proof_broken(res, "C10")
    return "proof"
