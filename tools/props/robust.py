"""Shared machinery of the robustness properties C02, C04, C07, C09, C10, C11, C20: corpus + fault sweep over the C library
(ASan/UBSan build, instrumented mspack_system), and the L2 model-vs-C callback correspondence for the SZDD front end."""
import random, os, time
import vlib
from vlib import scenario, sweep, kwajfmt, l2

def l2_szdd(res, tier, rng):
    """model (executable host, extracted) vs C: identical callback traces, statuses and outputs for every single fault"""
    ok, log, mexe = vlib.build_model_drv()
    if not ok: res.oblige("model driver builds", False, log[-300:]); return
    ok, log, exe = vlib.build_impl("asan")
    if not ok: res.oblige("C harness builds (asan)", False, log[-300:]); return
    ntr = 6 if tier == "quick" else 60
    n = 0; bad = []
    for trial in range(ntr):
        kind = trial % 2; enc, plain = sweep.py_lzss(rng, rng.choice([0, 3, 30, 200 if tier != "quick" else 12]), 0 if kind == 0 else 2)
        f = kwajfmt.szdd(kind, len(plain), enc)
        if trial % 5 == 4: f = f[:rng.randrange(len(f))]
        if trial % 7 == 6 and f: f = bytes([f[0] ^ 1]) + f[1:]
        for script in "AB":
            def mk(faults):
                sc = scenario.Scn().file("in0.sz", f).trace(1)
                for (k, i, m) in faults: sc.fault(k, i, "short" if m else "err")
                sc.op("szdd_new")
                if script == "A": sc.op("szdd_decompress", "in0.sz", "out0")
                else: sc.op("szdd_open", "h0", "in0.sz").op("szdd_extract", "h0", "out0").op("szdd_extract", "h0", "out1").op("szdd_close", "h0")
                sc.op("szdd_destroy"); return sc
            clean = scenario.run_scenarios(exe, [mk([])])[0]
            plans = [[]]
            for k in ("open", "read", "write", "seek", "alloc"):
                for i in range(clean.calls.get(k, 0)):
                    plans.append([(k, i, 0)])
                    if k == "write" and i < 3: plans.append([(k, i, 1)])
            if len(plans) > 120: plans = plans[:60] + rng.sample(plans[60:], 60)
            if tier != "quick":   # sampled pairs of faults
                singles = plans[1:]
                for _ in range(20):
                    if len(singles) >= 2: a, b = rng.sample(singles, 2); plans.append(a + b)
            trs = scenario.run_scenarios(exe, [mk(p) for p in plans])
            lines = ["%s %s %s" % (script, ",".join("%d:%d:%d" % (l2.KIND_CODE[k], i, m) for (k, i, m) in p) or "-", f.hex() or "-") for p in plans]
            rc, out, err = vlib.run_lines(mexe, ["szddl2"], lines)
            for p, t, o, ln in zip(plans, trs, out, lines):
                n += 1; res.count("l2-szdd-" + ("fault" if p else "clean"))
                st, ev, outs = l2.parse_model(o)
                cev = l2.canon(t.raw)
                cout = [(x.out or "") for x in t.ops if x.out is not None and x.out != "absent"]
                if script == "A":
                    d = [x for x in t.ops if x.name == "szdd_decompress"]
                    cst = [int(d[0].kv["st"]), int(d[0].kv["err"])] if d else None
                    stok = (cst == st) or (cst is None and st == [98, 98])   # constructor returned NULL: no call is made
                else:
                    stok = True
                if t.crash or ev != cev or not stok:
                    bad.append((script, p, ln, (t.crash or "")[-200:], st, ev[:3], cev[:3]))
    res.evaluations += n; res.traces += n
    res.nontrivial.add(("l2", n))
    res.oblige("L2 correspondence: SZDD/LZSS port and C make identical callback sequences (every single fault point; %d scenarios)" % n, not bad, str(bad[:1])[:600])
    if bad:
        script, p, ln, crash, st, ev, cev = bad[0]
        res.violation("SZDD callback trace of the C code differs from the model under fault plan %s" % (p,), "# engine szddl2: script faults hex\n%s\n# model status %s\n# %s\n" % (ln, st, crash), found_input=False)
    return n

def l2_kwaj(res, tier, rng):
    """the same for the KWAJ front end (L2/Kwaj.v: open with every optional header, extract for methods NONE / XOR / SZDD / unknown, close,
    decompress): identical callback traces, statuses, header fields and outputs for every single fault"""
    ok, log, mexe = vlib.build_model_drv()
    if not ok: res.oblige("model driver builds", False, log[-300:]); return
    ok, log, exe = vlib.build_impl("asan")
    if not ok: res.oblige("C harness builds (asan)", False, log[-300:]); return
    ntr = 8 if tier == "quick" else 80
    n = 0; bad = []
    for trial in range(ntr):
        comp = [0, 1, 2, 7, 0, 2][trial % 6]
        plain = bytes(rng.choice(b"kwaj \n\x00") for _ in range(rng.choice([0, 5, 300, 5000 if tier != "quick" else 40])))
        if comp == 2: payload, plain = sweep.py_lzss(rng, rng.choice([0, 3, 30]), 2)
        elif comp == 1: payload = bytes(b ^ 0xFF for b in plain)
        else: payload = plain
        flags = 63 if trial % 3 == 0 else rng.randrange(64)
        f = kwajfmt.kwaj(comp, payload, flags, len(plain), b"ab", bytes(rng.randrange(256) for _ in range(rng.choice([0, 5]))),
                         bytes(rng.choice(b"NAMEfile") for _ in range(rng.choice([1, 5, 8]))), bytes(rng.choice(b"ext") for _ in range(rng.choice([0, 1, 3]))),
                         bytes(rng.randrange(1, 256) for _ in range(rng.choice([0, 1, 20]))))
        if trial % 4 == 3: f = f[:rng.randrange(len(f))]
        if trial % 11 == 10 and f: f = bytes([f[0] ^ 1]) + f[1:]
        for script in "AB":
            def mk(faults):
                sc = scenario.Scn().file("in0.kwj", f).trace(1).hexout(1)
                for (k, i, m) in faults: sc.fault(k, i, "short" if m else "err")
                sc.op("kwaj_new")
                if script == "A": sc.op("kwaj_decompress", "in0.kwj", "out0")
                else: sc.op("kwaj_open", "h0", "in0.kwj").op("kwaj_extract", "h0", "out0").op("kwaj_extract", "h0", "out1").op("kwaj_close", "h0")
                sc.op("kwaj_destroy"); return sc
            clean = scenario.run_scenarios(exe, [mk([])])[0]
            plans = [[]]
            for k in ("open", "read", "write", "seek", "alloc"):
                for i in range(clean.calls.get(k, 0)):
                    plans.append([(k, i, 0)])
                    if k == "write" and i < 3: plans.append([(k, i, 1)])
            if len(plans) > 120: plans = plans[:60] + rng.sample(plans[60:], 60)
            trs = scenario.run_scenarios(exe, [mk(p) for p in plans])
            lines = ["%s %s %s" % (script, ",".join("%d:%d:%d" % (l2.KIND_CODE[k], i, m) for (k, i, m) in p) or "-", f.hex() or "-") for p in plans]
            rc, out, err = vlib.run_lines(mexe, ["kwajl2"], lines)
            for p, t, o, ln in zip(plans, trs, out, lines):
                n += 1; res.count("l2-kwaj-" + ("fault" if p else "clean"))
                parts = o.split("|")
                st, ev, outs = l2.parse_model("|".join(parts[:3])); mh = [int(x) for x in parts[3].split(",")] if len(parts) > 3 and parts[3] else []
                cev = l2.canon(t.raw); why = None
                if t.crash: why = "crash " + t.crash[-200:]
                elif ev != cev: why = "callback traces differ"
                elif script == "A":
                    d = [x for x in t.ops if x.name == "kwaj_decompress"]
                    cst = [int(d[0].kv["st"]), int(d[0].kv["err"])] if d else None
                    if not ((cst == st) or (cst is None and st == [98, 98])): why = "status %s vs model %s" % (cst, st)
                    elif d and d[0].out not in (None, "absent") and (outs[0] if outs else "") != d[0].out: why = "output differs"
                else:
                    o_ = [x for x in t.ops if x.name == "kwaj_open"]
                    if o_ and o_[0].kv.get("ok") == "1":
                        hl = [l for l in o_[0].lines if l.startswith("kwaj ")]
                        kv = dict(x.split("=", 1) for x in hl[0].split()[1:]) if hl else {}
                        nm = bytes.fromhex(kv["name"]) if kv.get("name") not in (None, "-", "e") else b""
                        ex = bytes.fromhex(kv["extra"]) if kv.get("extra") not in (None, "-") else b""
                        ch = [int(kv["comp"]), int(kv["dataoff"]), int(kv["headers"]), int(kv["len"]), len(nm), len(ex)] + list(nm) + list(ex)
                        if ch != mh: why = "header fields differ: C %s model %s" % (ch[:8], mh[:8])
                        exs = [x for x in t.ops if x.name == "kwaj_extract"]
                        if why is None and [int(x.kv["st"]) for x in exs] != st[1:3]: why = "extract statuses %s vs model %s" % ([x.kv["st"] for x in exs], st)
                    elif o_ and st and st[0] == 0: why = "C open failed, model open succeeded"
                if why: bad.append((script, p, ln, why, st, ev[:3], cev[:3]))
    res.evaluations += n; res.traces += n
    res.nontrivial.add(("l2k", n))
    res.oblige("L2 correspondence: KWAJ port and C make identical callback sequences, statuses, header fields and outputs (every single fault point; %d scenarios)" % n, not bad, str(bad[:1])[:600])
    if bad:
        script, p, ln, why, st, ev, cev = bad[0]
        res.violation("KWAJ: the C code and the callback-level model differ under fault plan %s: %s" % (p, why), "# engine kwajl2: script faults hex\n%s\n# model status %s\n# %s\n" % (ln, st, why), found_input=False)
    return n

class Sweep:
    """runs the corpus; keeps clean transcripts and, on request, faulted ones"""
    def __init__(self, res, tier, rng, variant="asan", gen_n=None, dmg=None, fault_per_kind=None, maxfault_cases=None):
        self.res, self.tier, self.rng = res, tier, rng
        ok, log, self.exe = vlib.build_impl(variant)
        self.ok = ok
        if not ok: res.oblige("C harness builds (%s)" % variant, False, log[-400:]); return
        q = tier == "quick"
        base = sweep.repo_cases() + sweep.generated_cases(rng, gen_n or (3 if q else 25))
        # regression corpus first
        self.cases = corpus_cases() + base + sweep.hostile_cases(rng, 6 if q else 60) + sweep.targeted_cases(rng, 6 if q else 40) + sweep.refusal_cases(rng, 4 if q else 24) + sweep.damaged_cases(rng, base, dmg if dmg is not None else (1 if q else 8))
        self.clean = scenario.run_scenarios(self.exe, [c.scn for c in self.cases], timeout_each=20)
        for c in self.cases: res.count("case-" + c.label.split(":")[0] + "-" + c.fmt)
        res.evaluations += len(self.cases)
        self.fault_per_kind = fault_per_kind if fault_per_kind is not None else (2 if q else 6)
        self.maxfault_cases = maxfault_cases if maxfault_cases is not None else (120 if q else 1200)
        self.faulted = None
    def run_faults(self):
        if self.faulted is not None: return self.faulted
        idx = list(range(len(self.cases)))
        if len(idx) > self.maxfault_cases:
            must = [i for i in idx if getattr(self.cases[i], "all_faults", False)]      # cases built for the fault sweep are always part of it
            rest = [i for i in idx if i not in set(must)]
            idx = sorted(must + self.rng.sample(rest, max(0, min(len(rest), self.maxfault_cases - len(must)))))
        plan = []
        for i in idx:
            t = self.clean[i]
            if t.crash or t.hang: continue
            for (kind, k, mode, sc) in sweep.fault_variants(self.rng, self.cases[i], t, self.fault_per_kind):
                plan.append((i, kind, k, mode, sc))
        trs = scenario.run_scenarios(self.exe, [p[4] for p in plan], timeout_each=20)
        self.faulted = [(p[0], p[1], p[2], p[3], p[4], t) for p, t in zip(plan, trs)]
        self.res.evaluations += len(plan)
        for p in plan: self.res.count("fault-" + p[1])
        return self.faulted

def corpus_cases():
    """scenario files kept under /verif/corpus/*/*.scn (minimised failures and witnesses of repaired defects) run first"""
    out = []
    import glob
    for f in sorted(glob.glob(os.path.join(vlib.VERIF, "corpus", "*", "*.scn"))):
        txt = "".join(l for l in open(f) if not l.startswith("#"))
        sc = scenario.Scn(); sc.lines = [l for l in txt.split("\n") if l and l != "end"]
        out.append(sweep.Case("corpus:" + os.path.basename(f), "cab", sc))
    return out

def crash_oracle(res, sw, include_faults=True, keyfn=None):
    """C02: any sanitizer report, crash or abort"""
    n = 0
    def one(label, sc, t):
        nonlocal n
        if t.crash:
            k = classify_crash(t.crash)
            if res.violation("memory-safety report on %s: %s" % (label, t.crash.strip().split("\n")[-1][:200] if False else summarize(t.crash)), sc.text() + "\n# " + t.crash[-2500:], key=k): n += 1
    for c, t in zip(sw.cases, sw.clean): one(c.label, c.scn, t)
    if include_faults:
        for (i, kind, k, mode, sc, t) in sw.run_faults(): one("%s +fault %s#%d" % (sw.cases[i].label, kind, k), sc, t)
    return n

def summarize(crash):
    for l in crash.split("\n"):
        if "ERROR: AddressSanitizer" in l or "runtime error" in l or "ERROR: MemorySanitizer" in l: return l.strip()[:240]
    return crash.strip().split("\n")[0][:240]
def classify_crash(crash):
    import re
    m = re.search(r"#\d+ 0x[0-9a-f]+ in (\w+) [^\n]*libmspack", crash)
    fn = m.group(1) if m else "?"
    kind = "asan" if "AddressSanitizer" in crash else ("ubsan" if "runtime error" in crash else "crash")
    m2 = re.search(r"AddressSanitizer: ([\w-]+)", crash)
    return "%s:%s:%s" % (kind, m2.group(1) if m2 else "", fn)

def ledger_oracle(res, sw, which):
    """C09 (which='ledger'): leaks / double release / use after release;  C20 (which='contract'): any contract violation"""
    n = 0
    def one(label, sc, t):
        nonlocal n
        # a crash is C02's business, unless a recorded contract violation preceded it, or (ledger) the sanitizer says that
        # released memory was used or released again - which is this property's subject seen from the allocator's side
        if t.crash and which == "ledger" and any(k in t.crash for k in ("heap-use-after-free", "double-free", "attempting free on address")):
            if res.violation("%s: released memory used or released again (%s)" % (label, summarize(t.crash)), sc.text() + "\n# " + t.crash[-2000:], key="ledger:use-after-release"): n += 1
            return
        if (t.hang or t.crash) and not (which == "contract" and t.viol): return      # contract violations recorded before a hang / crash still count
        probs = []
        if which == "ledger":
            if t.ledger.get("live_allocs", 0): probs.append("%d allocation(s) never freed" % t.ledger["live_allocs"])
            if t.ledger.get("open_handles", 0): probs.append("%d handle(s) never closed" % t.ledger["open_handles"])
            probs += [v for v in t.viol if ("free" in v or "close" in v or "closed handle" in v or "unknown handle" in v)]
        else:
            probs += list(t.viol)
        if probs:
            key = ("ledger:" if which == "ledger" else "contract:") + probs[0].split("#")[0].strip()[:60]
            if res.violation("%s: %s" % (label, "; ".join(probs[:3])), sc.text() + "\n# " + "\n# ".join(probs), key=key): n += 1
    for c, t in zip(sw.cases, sw.clean): one(c.label, c.scn, t)
    for (i, kind, k, mode, sc, t) in sw.run_faults(): one("%s +fault %s#%d%s" % (sw.cases[i].label, kind, k, " short" if mode == "short" else ""), sc, t)
    return n

def size_oracle(res, sw, include_faults=True):
    """C07: bytes accepted by write() on the output handle vs the declared size read from the listing before the call"""
    import struct
    n = 0
    def salvage_on(sc):
        on = False
        for l in sc.lines:
            p = l.split()
            if len(p) == 3 and p[0] == "cab_param" and p[1] == "3": on = p[2] != "0"
        return on
    def one(label, sc, t):
        nonlocal n
        if t.crash or t.hang: return
        salv = salvage_on(sc)
        files = {l.split()[1]: l.split()[2] for l in sc.lines if l.startswith("file ")}
        for o in t.ops:
            why = None
            if o.declared is not None:
                if o.written > o.declared: why = "%s wrote %d bytes, declared %d" % (o.name, o.written, o.declared)
                elif o.kv.get("st") == "0" and o.written != o.declared and not (salv and o.name == "cab_extract"):
                    why = "%s returned OK after %d of %d declared bytes" % (o.name, o.written, o.declared)
                elif o.kv.get("st") == "0" and o.outlen is not None and o.outlen != o.written:
                    why = "%s: output file holds %d bytes, %d were accepted" % (o.name, o.outlen, o.written)
            elif o.name in ("oab_decompress", "oab_incr") and o.outlen is not None:
                src = files.get("in0.oab" if o.name == "oab_decompress" else "in0.pat", "-")
                if src != "-" and len(src) >= (32 if o.name == "oab_decompress" else 40):
                    hb = bytes.fromhex(src[:80])
                    target = struct.unpack_from("<I", hb, 12 if o.name == "oab_decompress" else 16)[0]
                    if o.outlen > target: why = "%s wrote %d bytes, target size %d" % (o.name, o.outlen, target)
                    elif o.kv.get("st") == "0" and o.outlen != target: why = "%s returned OK after %d of %d bytes" % (o.name, o.outlen, target)
            if why:
                if res.violation("%s: %s" % (label, why), sc.text() + "\n# " + why, key="size:" + o.name): n += 1
                break
    for c, t in zip(sw.cases, sw.clean): one(c.label, c.scn, t)
    if include_faults:
        for (i, kind, k, mode, sc, t) in sw.run_faults(): one("%s +fault %s#%d" % (sw.cases[i].label, kind, k), sc, t)
    return n

def fault_oracle(res, sw):
    """C10: under a single host failure every op either reports non-OK or reproduces the failure-free result; last_error() = status"""
    n = 0; checked = 0
    def lasterr(label, sc, t):
        nonlocal n
        for o in t.ops:
            bad = None
            if "st" in o.kv and "err" in o.kv and o.kv["st"] != o.kv["err"]: bad = "%s returned %s but last_error() says %s" % (o.name, o.kv["st"], o.kv["err"])
            if "ok" in o.kv and "err" in o.kv and o.name != "cab_search":
                if o.kv["ok"] == "0" and o.kv["err"] == "0": bad = "%s returned NULL but last_error() is OK" % o.name
                if o.kv["ok"] == "1" and o.kv["err"] != "0": bad = "%s succeeded but last_error() says %s" % (o.name, o.kv["err"])
            if bad:
                if res.violation("%s: %s" % (label, bad), sc.text() + "\n# " + bad, key="lasterr:" + o.name): n += 1
                return
    for c, t in zip(sw.cases, sw.clean):
        if not (t.crash or t.hang): lasterr(c.label, c.scn, t)
    for (i, kind, k, mode, sc, t) in sw.run_faults():
        if t.crash or t.hang or t.ledger.get("faults_hit", 0) == 0: continue
        label = "%s +fault %s#%d%s" % (sw.cases[i].label, kind, k, " short" if mode == "short" else "")
        lasterr(label, sc, t)
        def keyed(ops):
            d = {}; cnt = {}
            for o in ops:
                # the variables (handles) an op works on are part of its identity: the same name may be looked up through two handles
                if o.outname: k = (o.name, o.outname, o.vars)
                elif "name" in o.kv: k = (o.name, o.kv["name"], o.kv.get("idx"), o.vars)
                else:
                    cnt[(o.name, o.vars)] = cnt.get((o.name, o.vars), 0) + 1; k = (o.name, cnt[(o.name, o.vars)], o.vars)
                d.setdefault(k, o)
            return d
        clean = keyed(sw.clean[i].ops)
        tainted = set()     # variables whose defining call (open/search/append/prepend) went differently: later calls on them have different inputs
        for k_, o in keyed(t.ops).items():
            co_ = clean.get(k_)
            if o.name in ("cab_open", "cab_search", "cab_append", "cab_prepend", "chm_open", "chm_fast_open", "szdd_open", "kwaj_open"):
                if co_ is None or (co_.kv.get("st"), co_.kv.get("ok")) != (o.kv.get("st"), o.kv.get("ok")): tainted.update(o.vars)
                elif any(v in tainted for v in o.vars): tainted.update(o.vars)
            if any(v in tainted for v in o.vars) and not (o.name.endswith("_open") or o.name == "cab_search"): continue
            if o.name in ("cab_new", "chm_new", "szdd_new", "kwaj_new", "oab_new"): continue
            if "st" in o.kv: okst = o.kv["st"] == "0"
            else: okst = o.kv.get("ok") == "1" and o.kv.get("err", "0") == "0"     # pointer-returning calls: last_error() is the status
            co = clean.get(k_)
            same = co is not None and (tuple(co.lines), co.out, co.outlen) == (tuple(o.lines), o.out, o.outlen) and (co.kv.get("st"), co.kv.get("ok")) == (o.kv.get("st"), o.kv.get("ok"))
            if okst and co is not None:
                checked += 1
                if not same:
                    why = "%s reported success with a result different from the failure-free run (outlen %s vs %s)" % (o.name, o.outlen, co.outlen)
                    if res.violation("%s: %s" % (label, why), sc.text() + "\n# " + why, key="fault-ok:%s:%s" % (o.name, kind)): n += 1
                    break
            # on an input that is not well-formed the first call that goes differently is the call the failure hit; what later calls
            # do then depends on the decoder state that call left behind (C08 covers histories on damaged folders, not this property)
            if not same and not sw.cases[i].wellformed: break
    return n, checked

def fill_oracle(res, cases, exe, fills=(0x00, 0xFF, 0xA5, 0x04)):
    """C11: the same scenario under allocators that pre-fill fresh memory differently must give the same transcript (L1)"""
    runs = []
    for f in fills:
        runs.append(scenario.run_scenarios(exe, [c.scn.with_prefix("fill %d" % f) for c in cases], timeout_each=20))
    n = 0
    for j, c in enumerate(cases):
        ts = [r[j] for r in runs]
        if any(t.crash or t.hang for t in ts): continue
        base = ts[0].l1()
        for f, t in zip(fills[1:], ts[1:]):
            if t.l1() != base:
                d = next(((a, b) for a, b in zip(base, t.l1()) if a != b), None)
                what = "%s: status/output differs between allocator fill 0x%02x and 0x%02x (%s st=%s len=%s vs st=%s len=%s)" % (
                    c.label, fills[0], f, d[0][0] if d else "?", d[0][1] if d else "?", d[0][6] if d else "?", d[1][1] if d else "?", d[1][6] if d else "?")
                if res.violation(what, c.scn.text() + "\n# " + what, key="fill:" + c.label.split(":")[0] + ":" + c.label.split(":")[1] if c.label.startswith("uninit:") else "fill:" + c.fmt): n += 1
                break
    res.evaluations += len(cases) * len(fills)
    return n
