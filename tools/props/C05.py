"""C05 — SZDD and KWAJ headers are reported and payloads expanded exactly."""
import random, os
import vlib
from vlib import lzhenc, scenario, kwajfmt
from props.common import proof_broken, diff_engines

EXPLANATION = ("Theorems: lzss_roundtrip (every dialect, every well-formed token stream), lzss_impl_refines_spec (callback port = pure decoder for "
  "every input buffer size > 0, fuel |input|+1), lzss_end_to_end.  Tie: (a) token streams are encoded by the extracted Coq encoder, decoded by "
  "the C lzss_decompress at buffer sizes 1,2,7,2048 and compared with the extracted expand; damaged and random streams compare model decoder vs C; "
  "(b) SZDD/KWAJ files wrapping these payloads go through open/extract of the real API and are compared with the generator's fields and plaintext.")

def gen_tokens(rng, n, pos0):
    toks = []; outlen = 0
    for _ in range(n):
        r = rng.random()
        if r < 0.45: toks.append("L%d" % rng.randrange(256)); outlen += 1
        else:
            ln = rng.choice([3, 4, 18, rng.randrange(3, 19)])
            cur = (pos0 + outlen) & 4095
            k = rng.random()
            if k < 0.3: p = rng.randrange(4096)
            elif k < 0.5: p = (cur - rng.randrange(1, 20)) & 4095          # self-overlapping
            elif k < 0.7: p = rng.randrange(4080, 4096)                      # source straddles the ring wrap
            elif k < 0.85: p = (cur + rng.randrange(0, 30)) & 4095           # ahead of the cursor: pre-filled / stale region
            else: p = rng.choice([0, 4095, 4078, 4080, pos0 & 4095])
            toks.append("M%d,%d" % (p, ln)); outlen += ln
    return toks

def run(res, tier, replay):
    rng = random.Random(vlib.seed() * 104729 + 5)
    res.rule = ("LZSS: token streams (literal / match at any of 4096 ring positions incl. pre-filled, self-overlap, ring wrap; lengths 3..18) for the 3 dialects, "
                "encoded by the extracted Coq encoder; plus bit-flipped, truncated and random streams; non-trivial = distinct stream with >= 1 match or damaged; "
                "SZDD/KWAJ: both SZDD variants and all 64 KWAJ flag combinations x methods none/xor/lzss/mszip")
    proofs_ok = vlib.coq_gate(res, "Properties_C05")
    ok, log, mexe = vlib.build_model_drv()
    if not ok:
        res.oblige("model driver builds", False, log[-400:]); proof_broken(res, "drivers"); return "proof"
    ntok = 150 if tier == "quick" else 3000
    enc_in = []
    for i in range(ntok):
        mode = i % 3; pos0 = 4096 - (18 if mode == 2 else 16)
        enc_in.append("%d %s" % (mode, " ".join(gen_tokens(rng, rng.choice([0, 1, 7, 8, 9, 40, 300]), pos0))))
    rc, enc_out, err = vlib.run_lines(mexe, ["lzssenc"], enc_in)
    cases = []; expect = {}
    for line, o in zip(enc_in, enc_out):
        p = o.split()
        if len(p) != 3 or p[2] != "true": res.oblige("generated tokens are well-formed (wf_tok)", False, line[:100]); continue
        c = "%s %s" % (line.split()[0], p[0]); cases.append(c); expect[c] = p[1]
        if "M" in line: res.nontrivial.add(c)
        res.count("lzss-wf-mode%s" % line.split()[0])
    # malformed stream: flips, truncations, random
    for c in list(cases)[: (60 if tier == "quick" else 1500)]:
        mode, hx = c.split()
        if hx == "-": continue
        b = bytearray.fromhex(hx)
        k = rng.random()
        if k < 0.4: b[rng.randrange(len(b))] ^= 1 << rng.randrange(8)
        elif k < 0.7: b = b[:rng.randrange(len(b))]
        else: b = bytearray(rng.randrange(256) for _ in range(rng.randrange(1, 200)))
        c2 = "%s %s" % (mode, vlib.hexs(b)); cases.append(c2); res.nontrivial.add(c2); res.count("lzss-damaged")
    if replay and os.path.exists(replay):
        cases = [l.strip() for l in open(replay) if l.strip() and not l.startswith("#") and len(l.split()) == 2 and l.split()[0] in "012"] + cases
    alld = []
    for bufsize in ([1, 2, 7, 2048] if tier == "quick" else [1, 2, 3, 5, 7, 64, 2048, 4096]):
        d = diff_engines(res, "lzss", cases, args_impl=[bufsize])
        if d is None: proof_broken(res, "drivers"); return "proof"
        alld += [(bufsize,) + x for x in d]
        res.evaluations += len(cases)
    res.oblige("correspondence: pure decoder = C lzss_decompress on %d streams x buffer sizes" % len(cases), not alld, str(alld[:2])[:400])
    # round trip against the C directly: C output on the encoding = extracted expand
    ok, log, iexe = vlib.build_impl("asan")
    wf_cases = [c for c in cases if c in expect]
    rc, out_i, err = vlib.run_lines(iexe, ["lzss", "2048"], wf_cases)
    bad = [(c, o) for c, o in zip(wf_cases, out_i) if o.split()[0] != "0" or (o.split()[1] if len(o.split()) > 1 else "-") != expect[c]]
    res.oblige("C decoder reproduces the meaning (expand) of %d encoded token streams" % len(wf_cases), rc == 0 and not bad and len(out_i) == len(wf_cases), str(bad[:1])[:300] + err[-300:])
    res.samples = cases[:2]
    # ---- API level: SZDD and KWAJ containers
    scns = []; meta = []
    def lz(mode, n):
        rc, o, e = vlib.run_lines(mexe, ["lzssenc"], ["%d %s" % (mode, " ".join(gen_tokens(rng, n, 4096 - (18 if mode == 2 else 16))))])
        p = o[0].split(); return (bytes.fromhex(p[0]) if p[0] != "-" else b""), (bytes.fromhex(p[1]) if p[1] != "-" else b"")
    nsz = 12 if tier == "quick" else 200
    for i in range(nsz):
        kind = i % 2; enc, plain = lz(0 if kind == 0 else 2, rng.choice([0, 1, 9, 100]))
        missing = rng.randrange(256)
        f = kwajfmt.szdd(kind, len(plain), enc, missing)
        sc = scenario.Scn().file("in.sz", f).op("szdd_new").op("szdd_open", "h0", "in.sz").op("szdd_extract", "h0", "out0")
        if i % 2 == 1: sc.op("szdd_open", "h1", "missing.sz")      # a failed call in between leaves nothing behind: the next extract reports its own result
        sc.op("szdd_extract", "h0", "out2").op("szdd_close", "h0").op("szdd_decompress", "in.sz", "out1")
        scns.append(sc); meta.append(("szdd", kind, len(plain), missing if kind == 0 else 0, plain))
    flagsets = list(range(64)) if tier == "thorough" else rng.sample(range(64), 24) + [0, 63]
    for fl in flagsets:
        for comp in (0, 1, 2, 3, 4):
            if tier == "quick" and rng.random() < 0.5 and fl not in (0, 63): continue
            plain = bytes(rng.choice(b"abc \n\xff\x00") for _ in range(rng.choice([0, 1, 50, 5000])))
            if comp == 0: payload = plain
            elif comp == 1: payload = bytes(b ^ 0xFF for b in plain)
            elif comp == 2: payload, plain = lz(2, rng.choice([0, 5, 60]))
            elif comp == 3:
                # LZ + Huffman: token streams ending on a literal run or a match, with 0..7 unused bits in the last byte
                r = lzhenc.generate(rng, rng.choice([1, 2, 8, 60]), want_pad=rng.choice([None, 0, 0, rng.randrange(8)]), final=rng.choice([None, "M", "M", "R"])) or lzhenc.generate(rng, 4)
                payload, plain = r[0], r[1]
            else: payload = kwajfmt.kwaj_mszip(plain, rng, rng.choice([32768, 1000]))
            name = bytes(rng.choice(b"ABCxyz19_") for _ in range(rng.choice([1, 3, 8]))); ext = bytes(rng.choice(b"TXd_") for _ in range(rng.choice([1, 2, 3])))
            extra = bytes(rng.randrange(1, 256) for _ in range(rng.choice([0, 1, 30])))
            unk2 = bytes(rng.randrange(256) for _ in range(rng.choice([0, 1, 17])))
            ln = rng.choice([len(plain), 0, 123456])
            f = kwajfmt.kwaj(comp, payload, fl, ln, b"\x12\x34", unk2, name, ext, extra, pad=bytes(rng.choice([0, 3])))
            sc = scenario.Scn().file("in.kw", f).op("kwaj_new").op("kwaj_open", "h0", "in.kw").op("kwaj_extract", "h0", "out0")
            if (fl + comp) % 2 == 1: sc.op("kwaj_open", "h1", "missing.kw")      # a failed call in between: the next extract still reports its own result
            sc.op("kwaj_extract", "h0", "out2").op("kwaj_close", "h0").op("kwaj_decompress", "in.kw", "out1")
            fn = None
            if fl & 0x18: fn = (name if fl & 8 else b"") + ((b"." + ext) if fl & 16 else b"")
            scns.append(sc); meta.append(("kwaj", comp, fl, ln if fl & 1 else 0, fn, extra if fl & 32 else None, plain))
    trs = scenario.run_scenarios(iexe, scns)
    nbad = 0
    for t, m, sc in zip(trs, meta, scns):
        res.evaluations += 1; res.nontrivial.add(sc.text()); res.count(m[0] + ("-comp%d" % m[1] if m[0] == "kwaj" else "-kind%d" % m[1]))
        if t.crash or t.hang:
            res.violation("crash/hang on a well-formed %s file: %s" % (m[0], (t.crash or "hang")[-200:]), sc.text(), key="crash"); nbad += 1; continue
        plain = m[-1]; good = True; why = ""
        ops = {o.name + str(i): o for i, o in enumerate(t.ops)}
        op_open = [o for o in t.ops if o.name.endswith("_open")][0]
        if op_open.kv.get("ok") != "1": good = False; why = "open failed " + str(op_open.kv)
        else:
            line = op_open.lines[0] if op_open.lines else ""
            if m[0] == "szdd":
                want = "szdd format=%d len=%d missing=%d" % (m[1], m[2], m[3])
                if line != want: good = False; why = "header %r != %r" % (line, want)
            else:
                want = "kwaj comp=%d dataoff=%d headers=%d len=%d name=%s extralen=%d extra=%s" % (
                    m[1], 0, m[2], m[3], ("-" if m[4] is None else (m[4].hex() if m[4] else "e")), len(m[5] or b""), ("-" if m[5] is None else m[5].hex()))
                got = " ".join(x for x in line.split() if not x.startswith("dataoff=")); want = " ".join(x for x in want.split() if not x.startswith("dataoff="))
                if got != want: good = False; why = "header %r != %r" % (got, want)
        for o in t.ops:
            if o.name.endswith("_extract") or o.name.endswith("_decompress"):
                if o.kv.get("st") != "0" or (o.out or "") != plain.hex(): good = False; why += " %s st=%s len=%s want %d" % (o.name, o.kv.get("st"), o.outlen, len(plain))
        if not good:
            nbad += 1
            res.violation("well-formed %s file: %s" % (m[0], why[:300]), sc.text(), key="c05-" + m[0])
    res.oblige("API level: %d SZDD/KWAJ files report their header fields and expand to the generator's plaintext" % len(scns), nbad == 0)
    # ---- whole-file model of kwajd.c (Model/Kwaj.v: every optional header field, NONE / XOR / SZDD / LZH / MSZIP) vs the C library
    from props import kwajlib
    kcases = []
    for i in range(60 if tier == "quick" else 1500):
        f, plain_k, comp_k, flags_k = kwajlib.rand_kwaj(rng)
        kcases.append(f if i % 3 == 0 else kwajlib.damage(rng, f))
    rck, mok, errk = vlib.run_lines(mexe, ["kwaj"], [vlib.hexs(f) for f in kcases], timeout=3000)
    ktr = scenario.run_scenarios(iexe, [kwajlib.scn_for(f) for f in kcases])
    kdiffs = []
    for f, m, t in zip(kcases, mok, ktr):
        res.evaluations += 1
        if t.crash or t.hang or "#X 98" in m: continue
        if kwajlib.c_canonical(t) != m: kdiffs.append((f, m, kwajlib.c_canonical(t)))
    res.oblige("correspondence: model of kwajd.c (headers, NONE/XOR/SZDD/LZH/MSZIP) = C library on %d KWAJ files (1/3 intact, 2/3 damaged)" % len(kcases), not kdiffs and len(mok) == len(kcases), "%d differ %s" % (len(kdiffs), errk[-200:]) if kdiffs or len(mok) != len(kcases) else "")
    for f, m, cc in kdiffs[:2]:
        res.violation("model of kwajd.c and the C library disagree: C %s | model %s" % (cc[:120], m[:120]), kwajlib.scn_for(f).text(), found_input=False)
    if not proofs_ok or alld or bad:
        def s():
            for bs, case, mo, io in alld[:1]:
                res.violation("LZSS model and C disagree (bufsize %d) on %s" % (bs, case[:80]), "# engine lzss (mode hex), C bufsize %d\n%s\n# model: %s\n# impl: %s\n" % (bs, case, mo[:2000], io[:2000]), found_input=True)
            for c, o in bad[:1]:
                res.violation("C LZSS decoder does not reproduce the token stream's meaning", "# engine lzss\n%s\n# expected %s\n# impl: %s\n" % (c, expect[c][:2000], o[:2000]), found_input=True)
        proof_broken(res, "C05", s)
    return "proof"
