"""C08 — extraction results do not depend on what was extracted before."""
import random
import vlib
from vlib import scenario, gen, chmfmt, sweep
from props.common import proof_broken

EXPLANATION = ("Theorems: extract_history_independent / intact_folder_exact over the decoder-reuse rule of cabd_extract (and the LZX section of chmd_extract) "
  "on an abstract folder with an optional damage point.  Tie and search: generated cabinets, sets and helpfiles (some with one damaged folder) - every call of a "
  "random sequence with repeats / forward / backward steps / folder and cabinet switches on one decompressor is compared (status and bytes) with the same "
  "member extracted by a freshly created decompressor.")

def run(res, tier, replay):
    rng = random.Random(vlib.seed() * 15485863 + 8)
    res.rule = ("history = 12-24 extract calls per archive chosen as same / next / previous / random member, interleaving two cabinets or two helpfiles on one instance; "
                "oracle = the same member on a fresh instance; one third of the archives have a damaged folder; non-trivial = distinct (archive, history)")
    proofs_ok = vlib.coq_gate(res, "Properties_C08")
    ok, log, exe = vlib.build_impl("asan")
    if not ok: res.oblige("C harness builds", False, log[-300:]); proof_broken(res, "C08"); return "proof"
    n = 12 if tier == "quick" else 150
    scns = []; meta = []
    for i in range(n):
        if i % 3 != 2:
            c = gen.cab_single(rng, big=True, nfolders=rng.choice([1, 2, 3])) if i % 2 == 0 else gen.cab_set(rng)
            files = dict(c.files)
            if i % 3 == 1:   # damage the data area of the last part (some folder becomes undecodable)
                nm = c.parts[-1]; b = bytearray(files[nm]); lo = len(b) * 2 // 3
                for _ in range(3): b[rng.randrange(lo, len(b))] ^= 1 << rng.randrange(8)
                files[nm] = bytes(b)
            def base():
                sc = scenario.Scn()
                for k, nm in enumerate(c.parts): sc.file("in%d.cab" % k, files[nm])
                sc.op("cab_new")
                for k in range(len(c.parts)): sc.op("cab_open", "c%d" % k, "in%d.cab" % k)
                for k in range(1, len(c.parts)): sc.op("cab_append", "c%d" % (k - 1), "c%d" % k)
                return sc
            nmem = len(c.members)
            fol_of = [fi for fi, f_ in enumerate(c.folders) for _ in f_.members]
            sc = base().op("cab_extract_seq", "c0", "outs", rng.randrange(1 << 30), 12 if tier == "quick" else 24)
            scns.append(sc); meta.append(("cab-hist", i, fol_of))
            for m in range(nmem):
                scns.append(base().op("cab_extract", "c0", m, "ref")); meta.append(("cab-ref", i, m))
        else:
            f0 = [(b"/a.txt", b"hello"), (b"/b.bin", bytes(300))]
            f1 = [(b"/c%d.bin" % j, rng.choice([5, 20000, 40000, 70000])) for j in range(rng.randrange(2, 5))]
            try:
                if i % 6 == 2:
                    # many reset points crossed while the decoder is kept: long members, a reset every frame, match-heavy streams (what a reset
                    # must re-initialise - repeated offsets, block state, code lengths - is used again right behind it)
                    f1 = [(b"/c%d.bin" % j, [70000, 66000, 40000][j]) for j in range(3)]
                    chm, exp = chmfmt.build(f0, f1, rng, chunk_size=512, density=1, wbits=16, reset_frames=1, with_rtable=True, lzx_match_p=0.85)
                else:
                    chm, exp = chmfmt.build(f0, f1, rng, chunk_size=512, density=1, wbits=16, reset_frames=rng.choice([1, 2]), with_rtable=rng.random() < 0.8)
            except ValueError:
                continue
            names = sorted([k for k in exp if not k.startswith(b"::")], key=chmfmt.sort_key)
            order = [rng.randrange(len(names)) for _ in range(10 if tier == "quick" else 20)]
            # directed part: the compressed members in directory order, each followed by an uncompressed-section member
            # (which moves the shared input handle while the LZX decoder is kept), then the same backwards
            s0 = [names.index(nm) for nm, _ in f0 if nm in names]; s1 = [k for k in range(len(names)) if k not in s0]
            if s0 and s1:
                for k in s1: order += [k, rng.choice(s0)]
                for k in reversed(s1): order += [rng.choice(s0), k]
            sc = scenario.Scn().file("in0.chm", chm).op("chm_new").op("chm_open", "h0", "in0.chm")
            for j, m in enumerate(order): sc.op("chm_extract", "h0", m, "o%d_%d" % (j, m))
            scns.append(sc); meta.append(("chm-hist", i, order))
            for m in range(len(names)):
                scns.append(scenario.Scn().file("in0.chm", chm).op("chm_new").op("chm_open", "h0", "in0.chm").op("chm_extract", "h0", m, "ref")); meta.append(("chm-ref", i, m))
    # what a rebuilt decoder inherits: cabinets whose folders each begin with a match reaching before the start of the stream, run
    # with an allocator that hands a freed block to the next request of the same size untouched (as a real heap does); the member
    # must come out as from a fresh decompressor whatever folder was decoded before
    for i in range(4 if tier == "quick" else 30):
        import struct as _st
        fps = []; files = []; mems = 0
        for fi in range(rng.choice([2, 3])):
            toks = [("M", rng.randrange(3, 11), rng.randrange(1, 5))] + [("L", rng.randrange(1, 256)) if rng.random() < 0.6 else ("M", rng.randrange(3, 11), rng.randrange(1, 5)) for _ in range(rng.randrange(2, 30))]
            if fi == 0 and rng.random() < 0.5: toks = [("L", rng.randrange(1, 256)) for _ in range(40)]
            ulen = sum(1 if t[0] == "L" else t[1] for t in toks)
            fps.append((1, [(b"CK" + sweep.fixed_deflate(toks), ulen)])); files.append((b"m%d.bin" % fi, ulen, 0, fi, 0x5A21, 0x6C43, 0x20)); mems += 1
        from vlib import cabfmt
        # one ordinary folder that fills the whole 32K window of its decoder
        big = cabfmt.Folder(("mszip",), cabfmt.random_members(rng, 1, lens=[rng.choice([33000, 40000])])); big.prepare(rng)
        fps.append((1, big.blocks)); files.append((b"big.bin", big.members[0].length, 0, len(fps) - 1, 0x5A21, 0x6C43, 0x20)); mems += 1
        cab = cabfmt.build_cab(fps, files)
        order = [mems - 1, 0, mems - 1, 1] + [rng.randrange(mems) for _ in range(8)] + list(range(mems)) + list(reversed(range(mems)))
        sc = scenario.Scn(); sc.lines.append("recycle 1"); sc.file("in0.cab", cab).op("cab_new").op("cab_open", "c0", "in0.cab")
        for j, m_ in enumerate(order): sc.op("cab_extract", "c0", m_, "o%d_%d" % (j, m_))
        scns.append(sc); meta.append(("rcy-hist", 5000 + i, order))
        for m_ in range(mems):
            r_ = scenario.Scn(); r_.lines.append("recycle 1"); r_.file("in0.cab", cab).op("cab_new").op("cab_open", "c0", "in0.cab").op("cab_extract", "c0", m_, "ref")
            scns.append(r_); meta.append(("rcy-ref", 5000 + i, m_))
    # tiny members right behind longer ones (a request shorter than what the decoder still holds from the previous call: a match that
    # straddles the end of a member leaves up to 258 decoded bytes waiting), every method, in order / skipping / repeating
    for i in range(4 if tier == "quick" else 24):
        from vlib import cabfmt
        meth = [("qtm", 15), ("lzx", 16), ("mszip",), ("qtm", 10)][i % 4]
        lens = [rng.randrange(100, 400), rng.randrange(1, 6), rng.randrange(1, 6), rng.randrange(20, 90), rng.randrange(1, 4), rng.randrange(200, 700), 1, 1, rng.randrange(100, 3000)]
        if meth[0] == "mszip": fo = cabfmt.Folder(meth, cabfmt.random_members(rng, len(lens), lens=lens))
        else: fo = cabfmt.Folder(meth, [cabfmt.Member(b"t%d.bin" % j, length=lens[j]) for j in range(len(lens))])
        cab = cabfmt.build_single([fo], rng, with_ck=True); mems = len(lens)
        order = list(range(mems)) + [0, 2, 3, 5, 6, 8] + [1, 2, 4, 7, 8] + [rng.randrange(mems) for _ in range(6)] + [0, 1, 3, 4]
        sc = scenario.Scn().file("in0.cab", cab).op("cab_new").op("cab_open", "c0", "in0.cab")
        for j, m_ in enumerate(order): sc.op("cab_extract", "c0", m_, "o%d_%d" % (j, m_))
        scns.append(sc); meta.append(("tny-hist", 7000 + i, order))
        for m_ in range(mems):
            scns.append(scenario.Scn().file("in0.cab", cab).op("cab_new").op("cab_open", "c0", "in0.cab").op("cab_extract", "c0", m_, "ref")); meta.append(("tny-ref", 7000 + i, m_))
    # directed (own generator state, the same on every run): one folder of three blocks with a damaged last block; a member behind the damage
    # first (fails while skipping, nothing flushed), then the member at offset 0 and the one reaching into the damage - the two recorded
    # manifestations of the decoder that is kept after it has failed (known_findings.json)
    for di, (meth, lens, order) in enumerate(((("qtm", 16), [100, 72900, 1000], [2, 0, 1]), (("qtm", 15), [100, 40000, 30000, 3000], [3, 2, 0]))):
        from vlib import cabfmt
        r8 = random.Random(8)
        fo = cabfmt.Folder(meth, [cabfmt.Member(b"d%d.bin" % j, length=lens[j]) for j in range(len(lens))])
        cab = bytearray(cabfmt.build_single([fo], r8, with_ck=True))
        cab[-5] ^= 0x55                      # a payload byte of the last block (checksummed)
        sc = scenario.Scn().file("in0.cab", bytes(cab)).op("cab_new").op("cab_open", "c0", "in0.cab")
        for j, m_ in enumerate(order): sc.op("cab_extract", "c0", m_, "o%d_%d" % (j, m_))
        scns.append(sc); meta.append(("dmg-hist", 8000 + di, order))
        for m_ in range(len(lens)):
            scns.append(scenario.Scn().file("in0.cab", bytes(cab)).op("cab_new").op("cab_open", "c0", "in0.cab").op("cab_extract", "c0", m_, "ref")); meta.append(("dmg-ref", 8000 + di, m_))
    # directed (own generator state): a CHM whose second reset interval is damaged; a member that begins behind the damage in that interval first
    # (the error comes up while the decoder silently skips to the member), then members of the next, intact interval and of the first one
    for di in range(2):
        import struct as _st
        r8 = random.Random(80 + di)
        f1 = [(b"/c0.bin", 3000), (b"/c1.bin", 67000), (b"/c2.bin", 75000), (b"/c3.bin", 5000), (b"/c4.bin", 900)]
        chm, exp = chmfmt.build([(b"/a.txt", b"hello")], f1, r8, chunk_size=4096, wbits=16, reset_frames=2, with_rtable=True, lzx_btypes=([1, 2] if di == 0 else None))
        stream = exp[chmfmt.CONTENT][3]; rt = exp[chmfmt.RTABLE][3]
        offs = [_st.unpack_from("<Q", rt, 0x28 + 8 * k)[0] for k in range(_st.unpack_from("<I", rt, 4)[0])]
        at = chm.find(stream); b = bytearray(chm)
        if at < 0 or len(offs) < 5: continue
        for k in range(offs[2] + 4, min(offs[2] + 1500, offs[3])): b[at + k] = 0xFF          # the first frame of the second interval
        names = sorted([k for k in exp if not k.startswith(b"::")], key=chmfmt.sort_key)
        ix = lambda nm: names.index(nm)
        order = [ix(b"/c2.bin"), ix(b"/c3.bin"), ix(b"/c0.bin"), ix(b"/c4.bin"), ix(b"/c2.bin"), ix(b"/c4.bin"), ix(b"/c3.bin")]
        sc = scenario.Scn().file("in0.chm", bytes(b)).op("chm_new").op("chm_open", "h0", "in0.chm")
        for j, m_ in enumerate(order): sc.op("chm_extract", "h0", m_, "o%d_%d" % (j, m_))
        scns.append(sc); meta.append(("chm-hist", 9500 + di, order, {k: exp[nm][:3] for k, nm in enumerate(names)}))
        for m_ in range(len(names)):
            scns.append(scenario.Scn().file("in0.chm", bytes(b)).op("chm_new").op("chm_open", "h0", "in0.chm").op("chm_extract", "h0", m_, "ref")); meta.append(("chm-ref", 9500 + di, m_))
    # directed (own generator state): a member of the first part extracted BEFORE the parts of a set are joined, later members of the same
    # folder after the join (the folder grows while its decoder is alive)
    for di in range(2):
        from vlib import cabfmt
        r9 = random.Random(990 + di)
        fo = cabfmt.Folder(("none",), [cabfmt.Member(b"j%d.bin" % j, data=bytes(r9.randrange(256) for _ in range(ln))) for j, ln in enumerate([3000, 40000, 30000])])
        for m_ in fo.members: m_.length = len(m_.data)
        fo.prepare(r9); cabs_, names_ = cabfmt.build_set([fo], [(0, 1, 5000 + 20000 * di)], r9, names=[b"j1.cab", b"j2.cab"])
        order = [0, 2, 1, 0] if di == 0 else [0, 1, 2, 1]
        sc = scenario.Scn().file("in0.cab", cabs_[0]).file("in1.cab", cabs_[1]).op("cab_new").op("cab_open", "c0", "in0.cab").op("cab_open", "c1", "in1.cab")
        sc.op("cab_extract", "c0", order[0], "o0_%d" % order[0]).op("cab_append", "c0", "c1")
        for j, m_ in enumerate(order[1:]): sc.op("cab_extract", "c0", m_, "o%d_%d" % (j + 1, m_))
        scns.append(sc); meta.append(("lat-hist", 9800 + di, order))
        for m_ in range(3):
            scns.append(scenario.Scn().file("in0.cab", cabs_[0]).file("in1.cab", cabs_[1]).op("cab_new").op("cab_open", "c0", "in0.cab").op("cab_open", "c1", "in1.cab").op("cab_append", "c0", "c1").op("cab_extract", "c0", m_, "ref")); meta.append(("lat-ref", 9800 + di, m_))
    # one decompressor used for two sets in a row (allocator that hands freed blocks out again): the first set is closed through its head
    # while the data file read last belongs to a later part; nothing of it may reach the second set's members
    for i in range(3 if tier == "quick" else 20):
        from vlib import cabfmt
        r2 = random.Random(900 + i)          # (own generator state: the same sets on every run)
        def two_part(tag):
            # alternately: one folder split over both parts / one folder per part (the second part's member then lives wholly in the part read last)
            if i % 2 == 0:
                fos = [cabfmt.Folder(("none",), cabfmt.random_members(r2, 1, lens=[700])), cabfmt.Folder(("none",), cabfmt.random_members(r2, 1, lens=[900]))]
                cuts = [(0, "end", 0)]
            else:
                fos = [cabfmt.Folder(("none",), cabfmt.random_members(r2, 2, lens=[9000, 9000]))]; cuts = [(0, 0, 12000)]
            k_ = 0
            for fo_ in fos:
                fo_.prepare(r2)
                for m_ in fo_.members: m_.name = b"%s%d.txt" % (tag, k_); k_ += 1
            cabs, names = cabfmt.build_set(fos, cuts, r2, names=[b"%s1.cab" % tag, b"%s2.cab" % tag])
            return fos, cabs
        foA, cabsA = two_part(b"a"); foB, cabsB = two_part(b"b")
        base2 = lambda: scenario.Scn().file("b0.cab", cabsB[0]).file("b1.cab", cabsB[1])
        sc = scenario.Scn(); sc.lines.append("recycle 1"); sc.file("a0.cab", cabsA[0]).file("a1.cab", cabsA[1]).file("b0.cab", cabsB[0]).file("b1.cab", cabsB[1])
        sc.op("cab_new").op("cab_open", "c0", "a0.cab").op("cab_open", "c1", "a1.cab").op("cab_append", "c0", "c1")
        sc.op("cab_extract", "c0", 1, "oA").op("cab_close_any", "c0")
        sc.op("cab_open", "c2", "b0.cab").op("cab_open", "c3", "b1.cab").op("cab_append", "c2", "c3")
        order = [-1] + [[1, 0, 1], [1, 1, 0], [0, 1, 0]][i % 3]
        for j, m_ in enumerate(order[1:]): sc.op("cab_extract", "c2", m_, "o%d_%d" % (j, m_))
        scns.append(sc); meta.append(("two-hist", 9000 + i, order))
        for m_ in range(2):
            r_ = scenario.Scn(); r_.lines.append("recycle 1"); r_.file("b0.cab", cabsB[0]).file("b1.cab", cabsB[1]).op("cab_new").op("cab_open", "c2", "b0.cab").op("cab_open", "c3", "b1.cab").op("cab_append", "c2", "c3").op("cab_extract", "c2", m_, "ref")
            scns.append(r_); meta.append(("two-ref", 9000 + i, m_))
    trs = scenario.run_scenarios(exe, scns)
    ref = {}
    for t, m in zip(trs, meta):
        if m[0].endswith("-ref"):
            ex = [o for o in t.ops if o.name.endswith("_extract")]
            ref[(m[0][:3], m[1], m[2])] = (ex[0].kv.get("st"), ex[0].out) if ex and not t.crash else ("crash", None)
    nbad = 0; ncalls = 0
    for t, m, sc in zip(trs, meta, scns):
        if not m[0].endswith("-hist"): continue
        res.evaluations += 1; res.nontrivial.add((m[0], m[1], len(sc.text())))
        if t.crash or t.hang:
            if res.violation("crash/hang during an extraction history: %s" % (t.crash or "hang")[-200:], sc.text(), key="crash"): nbad += 1
            continue
        ex = [o for o in t.ops if o.name.endswith("_extract")]
        failed_in = {}          # folder -> status of an earlier failed call on that folder (cabinets only)
        lzpos = None            # directed damaged CHM: where the live LZX decoder of the compressed section stands (None: no live decoder)
        for j, o in enumerate(ex):
            idx = int(o.kv["idx"]) if "idx" in o.kv else m[2][j]
            want = ref.get((m[0][:3], m[1], idx)); ncalls += 1
            if m[0] in ("rcy-hist", "tny-hist", "dmg-hist", "two-hist", "lat-hist"): idx = m[2][j]
            fol = m[2][idx] if m[0] == "cab-hist" and idx < len(m[2]) else (0 if m[0] == "dmg-hist" else None)
            if want is None: continue
            if (o.kv.get("st"), o.out) != want:
                # same failure status, different number of bytes delivered before the failure: recorded finding (known_findings.json)
                k = "failed-member-partial-output" if (o.kv.get("st") == want[0] and want[0] not in ("0", "crash")) else "history"
                # the decoder of a folder that has failed is kept with its error: a later call on the SAME (damaged) folder whose
                # offset is not behind the bytes flushed so far gets that error at once, although a fresh decompressor would not
                # have to touch the damaged block for this member: second recorded manifestation of the same finding
                if k == "history" and fol is not None and failed_in.get(fol) == o.kv.get("st") and (o.outlen or 0) == 0 and want[0] == "0":
                    k = "failed-folder-sticky-error"
                # directed damaged CHM (second reset interval 65536..131071 damaged): a member of the third, intact interval reached by
                # skipping forward with the live decoder from a position before the damage fails, a fresh decompressor starts at the
                # member's own reset point (known_findings.json: chm-skip-through-damaged-interval); nothing else is excused
                if k == "history" and len(m) > 3 and m[3][idx][0] == 1 and lzpos is not None and lzpos <= 65536 and m[3][idx][1] >= 131072 \
                        and want[0] == "0" and o.kv.get("st") == "11" and (o.outlen or 0) == 0:
                    k = "chm-skip-through-damaged-interval"
                if res.violation("call %d of the history (member %d) gave status %s / %s bytes, a fresh decompressor gives status %s / %s bytes" % (
                        j, idx, o.kv.get("st"), o.outlen, want[0], len(want[1] or "") // 2), sc.text(), key=k):
                    nbad += 1; break
            if fol is not None and o.kv.get("st") not in ("0", None): failed_in.setdefault(fol, o.kv.get("st"))
            if len(m) > 3 and m[3][idx][0] == 1 and m[3][idx][2] > 0: lzpos = (m[3][idx][1] + m[3][idx][2]) if o.kv.get("st") == "0" else None
        res.count(m[0])
    res.oblige("search: %d extract calls in %d histories agree with a fresh decompressor" % (ncalls, sum(1 for m in meta if m[0].endswith("-hist"))), nbad == 0)
    # the Coq witness of the recorded finding chm-skip-through-damaged-interval (Props/ChmDamageSample.v, theorem
    # C08_chm_history_independence_refuted_for_damaged_interval): the committed file is what its generator writes, and the model and the
    # C library give the same answers on both sessions of the theorem
    import importlib.util, os, tempfile
    from props import chmlib
    spec = importlib.util.spec_from_file_location("mkds", os.path.join(vlib.VERIF, "tools", "dev", "mk_chm_damage_sample.py")); mkds = importlib.util.module_from_spec(spec); spec.loader.exec_module(mkds)
    wchm, wnames = mkds.build(); i0 = wnames.index(b"/c0.bin"); i4 = wnames.index(b"/c4.bin")
    okm, logm, mexe = vlib.build_model_drv()
    sess = [["x%d" % i0, "x%d" % i4], ["x%d" % i4]]
    rcw, mow, errw = vlib.run_lines(mexe, ["chm"], [chmlib.model_line(wchm, True, o_) for o_ in sess], timeout=600) if okm else (1, [], logm)
    tw = scenario.run_scenarios(exe, [chmlib.scn_for(wchm, True, o_) for o_ in sess])
    cw = [chmlib.c_canonical(t_) for t_ in tw]
    tmpv = os.path.join(tempfile.mkdtemp(prefix="c08w_"), "w.v"); os.system("python3 %s %s" % (os.path.join(vlib.VERIF, "tools", "dev", "mk_chm_damage_sample.py"), tmpv))
    same_v = os.path.exists(tmpv) and open(tmpv).read() == open(os.path.join(vlib.VERIF, "coq", "Props", "ChmDamageSample.v")).read()
    res.oblige("correspondence: the Coq witness of the recorded CHM finding is the generator's file, and model = C library on both of its sessions",
               same_v and len(mow) == 2 and mow == cw, "file identical: %s; model %s | C %s %s" % (same_v, [x[-40:] for x in mow], [x[-40:] for x in cw], errw[-200:]))
    if not (same_v and len(mow) == 2 and mow == cw):
        res.violation("model of chmd_extract and the C library disagree on the witness of the recorded finding (or the committed witness is stale)", chmlib.scn_for(wchm, True, sess[0]).text(), found_input=False)
    res.traces += 2
    res.traces += ncalls
    res.samples = [" | ".join(l for l in s.lines if not l.startswith("file "))[:300] for s, m in zip(scns, meta) if m[0].endswith("-hist")][:3]
    if not proofs_ok: proof_broken(res, "C08")
    return "proof"
