"""C12 — checksummed data is never accepted after being altered."""
import random, os
import vlib
from props.common import proof_broken, diff_engines

EXPLANATION = ("Theorems: cab_cksum_single_byte / block_tamper_{payload,sizes,stored} over Model/Cksum.v (port of cabd_checksum and of the "
  "test in cabd_sys_read_block) for every payload, position and replacement value.  Tie: the model's cksum vs the C cabd_checksum "
  "(static, reached through harness/w_cabd.c) on generated buffers; search: single-byte corruption of real CFDATA blocks run through "
  "the C extract path in strict mode (status must be non-OK or bytes unchanged).")

def gen_cases(rng, n):
    cases = []
    for i in range(n):
        ln = rng.choice([0, 1, 2, 3, 4, 5, 6, 7, 8, 9, 15, 16, 17, 31, 32, 33]) if i < 60 else rng.randrange(0, 600)
        data = bytes(rng.randrange(256) for _ in range(ln))
        seedv = rng.choice([0, 1, 0xFFFFFFFF, rng.randrange(1 << 32)])
        cases.append("%d %s" % (seedv, vlib.hexs(data)))
    return cases

def run(res, tier, replay):
    rng = random.Random(vlib.seed() * 7919 + 12)
    res.rule = ("cases = (seed, buffer) pairs, lengths 0..600 biased to the 4-byte lane boundaries; non-trivial = distinct buffers of length >= 1; "
                "plus strict-mode extraction of cabinets with one corrupted byte in a checksummed block (scenario runner)")
    proofs_ok = vlib.coq_gate(res, "Properties_C12")
    n = 400 if tier == "quick" else 20000
    cases = gen_cases(rng, n)
    if replay and os.path.exists(replay):
        cases = [l.strip() for l in open(replay) if l.strip() and not l.startswith("#") and len(l.split()) == 2] + cases
    diffs = diff_engines(res, "cksum", cases)
    if diffs is None:
        proof_broken(res, "drivers"); return "proof"
    res.evaluations += len(cases)
    for c in cases:
        if c.split()[1] != "-": res.nontrivial.add(c)
        res.count("len%%4=%d" % ((len(c.split()[1]) // 2) % 4 if c.split()[1] != "-" else 0))
    res.samples = cases[:3]
    res.oblige("correspondence: model cksum = C cabd_checksum on %d buffers" % len(cases), not diffs, str(diffs[:2]))
    from props import cabtamper
    tam = cabtamper.search(res, tier, rng)
    if not proofs_ok or diffs:
        def s():
            for case, m, i in (diffs or [])[:1]:
                res.violation("model and C checksum disagree on %s: model %s, C %s" % (case[:80], m, i[:200]), "# engine cksum: seed hex\n%s\n# model: %s\n# impl: %s\n" % (case, m, i), found_input=False)
        proof_broken(res, "C12", s)
    return "proof"
