"""C12 — checksummed data is never accepted after being altered."""
import random, os
import vlib
from props.common import proof_broken, diff_engines

EXPLANATION = ("Theorems: cab_cksum_single_byte / block_tamper_{payload,sizes,stored} over Model/Cksum.v (port of cabd_checksum and of the "
  "test in cabd_sys_read_block) for every payload, position and replacement value.  Tie: the model's cksum vs the C cabd_checksum "
  "(static, reached through harness/w_cabd.c) on generated buffers; search: single-byte corruption of real CFDATA blocks run through "
  "the C extract path in strict mode (status must be non-OK or bytes unchanged).")

def gen_cases(rng, n):
    cases = []
    for i in range(n):
        ln = rng.choice([0, 1, 2, 3, 4, 5, 6, 7, 8, 9, 15, 16, 17, 31, 32, 33]) if i < 60 else rng.randrange(0, 600)
        data = bytes(rng.randrange(256) for _ in range(ln))
        seedv = rng.choice([0, 1, 0xFFFFFFFF, rng.randrange(1 << 32)])
        cases.append("%d %s" % (seedv, vlib.hexs(data)))
    return cases

def oab_tamper(res, tier, rng):
    """OAB files / patches: one byte of an LZX block's payload, of its uncompressed-size field or of its stored CRC altered -> error, or the original bytes"""
    import struct
    from vlib import scenario
    from props import oablib
    ok, log, iexe = vlib.build_impl("asan")
    if not ok: res.oblige("C harness builds", False, log[-300:]); return
    scns = []; meta = []
    for i in range(9 if tier == "quick" else 90):
        patch = i % 2 == 1
        from vlib import oabfmt
        # a third of the files have blocks followed by padding larger than the input buffer used (the padding is skipped after the
        # CRC has been compared: an error found there must survive the skipping)
        padded = i % 3 == 2; bufsz = rng.choice([16, 64, 1000]) if padded else 4096
        lzlens = []       # length of each LZX stream, in block order (the padding follows it)
        def padf_(ln): lzlens.append(ln); return max(bufsz, 4096) * 2 + rng.choice([1, 300, 6000])      # the patch decoder reads 4096 bytes at a time whatever DECOMPBUF says
        padf = padf_ if padded else None
        bt = [3] if padded else None      # padded files: stored LZX blocks, so that an altered payload byte still decodes (to other bytes) and it is the CRC that must catch it
        if patch and padded:
            f, base, plain = oabfmt.build_patch(rng, [(rng.choice([0, 100, 3000]), rng.choice([100, 5000])) for _ in range(rng.randrange(1, 3))], pad_fn=padf, btypes=bt); lab = "patch-padded"
        elif patch: f, base, plain, lab = oablib.patch_case(rng)
        else:
            nb_ = rng.randrange(1, 3)
            f, plain = oabfmt.build_full(rng, [rng.choice([100, 5000, 40000]) for _ in range(nb_)], kinds=([1] * nb_ if padded else None),
                                         pad_fn=(lambda i_, ln: padf(ln)) if padded else None, btypes=bt); base = None; lab = "full-padded" if padded else "full"
        if i == 0:
            # directed: one stored-type LZX block whose CRC is exactly 0 (a legitimate value, not "no checksum"): the last four data bytes are the
            # little-endian CRC register of what precedes them
            # (own generator state, the same on every run; drawn again until the block's raw data ends the file)
            for k0 in range(200):
                f, plain = oabfmt.build_full(random.Random(1200 + k0), [64], kinds=[1], pad=[0], btypes=[3]); base = None; lab = "full-zero-crc"; padded = False; patch = False; bufsz = 4096
                tail = struct.pack("<I", oabfmt.regcrc(plain[:-4]))
                if f.endswith(plain[-4:]) and oabfmt.regcrc(plain[:-4] + tail) == 0:
                    plain = plain[:-4] + tail; f = bytearray(f[:-4] + tail); struct.pack_into("<I", f, 16 + 12, 0); f = bytes(f); break
        hdr = 28 if patch else 16
        # walk the blocks
        pos = hdr; blocks = []
        while pos + 16 <= len(f):
            a, b, c, d = struct.unpack_from("<IIII", f, pos)
            if patch: csize, lzx = a, True
            else: csize, lzx = b, a == 1
            if lzx and csize: blocks.append((pos, csize))
            pos += 16 + csize
        if lab == "full-zero-crc":
            # every one of the last eight data bytes, two alterations each (the stored CRC stays 0)
            for back in range(1, 9):
                for x_ in (1, 0x80):
                    t = bytearray(f); o = len(f) - back; t[o] ^= x_
                    scns.append(oablib.scn_full(bytes(t), bufsz)); meta.append((lab, "payload", o, plain))
        for bi_, (bp, cs) in enumerate(blocks):
            for _ in range(6 if tier == "quick" else 12):
                r = rng.random(); t = bytearray(f)
                # padded blocks: the last bytes of the LZX stream (raw data of a stored LZX block), never the padding
                if r < 0.6: o = bp + 16 + ((lzlens[bi_] - 1 - rng.randrange(min(3, lzlens[bi_]))) if (padded and bi_ < len(lzlens)) else rng.randrange(cs)); kind = "payload"
                elif r < 0.8: o = bp + (4 if patch else 8) + rng.randrange(4); kind = "dsize"
                else: o = bp + 12 + rng.randrange(4); kind = "crc"
                t[o] ^= rng.choice([1, 0x80, 0xFF, rng.randrange(1, 256)])
                sc = oablib.scn_patch(bytes(t), base, bufsz) if patch else oablib.scn_full(bytes(t), bufsz)
                scns.append(sc); meta.append((lab, kind, o, plain))
    trs = scenario.run_scenarios(iexe, scns, timeout_each=60); nbad = 0
    for t, sc, (lab, kind, o, plain) in zip(trs, scns, meta):
        res.evaluations += 1; res.nontrivial.add("oab%d%s" % (o, lab)); res.count("oab-tamper-" + kind)
        if t.crash or t.hang: continue
        c = oablib.c_result(t)
        if c.split()[0] == "0" and c != "0 " + plain.hex():
            nbad += 1; res.violation("OAB %s with byte %d (%s) altered: decompress returned OK with different content" % (lab, o, kind), sc.text(), key="c12:oab")
    res.oblige("search: %d single-byte alterations of OAB LZX blocks (payload / size / CRC) never give OK with different bytes" % len(scns), nbad == 0)

def run(res, tier, replay):
    rng = random.Random(vlib.seed() * 7919 + 12)
    res.rule = ("cases = (seed, buffer) pairs, lengths 0..600 biased to the 4-byte lane boundaries; non-trivial = distinct buffers of length >= 1; "
                "plus strict-mode extraction of cabinets with one corrupted byte in a checksummed block (scenario runner)")
    proofs_ok = vlib.coq_gate(res, "Properties_C12")
    n = 400 if tier == "quick" else 20000
    cases = gen_cases(rng, n)
    if replay and os.path.exists(replay):
        cases = [l.strip() for l in open(replay) if l.strip() and not l.startswith("#") and len(l.split()) == 2] + cases
    diffs = diff_engines(res, "cksum", cases)
    if diffs is None:
        proof_broken(res, "drivers"); return "proof"
    res.evaluations += len(cases)
    for c in cases:
        if c.split()[1] != "-": res.nontrivial.add(c)
        res.count("len%%4=%d" % ((len(c.split()[1]) // 2) % 4 if c.split()[1] != "-" else 0))
    res.samples = cases[:3]
    res.oblige("correspondence: model cksum = C cabd_checksum on %d buffers" % len(cases), not diffs, str(diffs[:2]))
    from props import cabtamper
    tam = cabtamper.search(res, tier, rng)
    cabtamper.search_sets(res, tier, rng)
    oab_tamper(res, tier, rng)
    if not proofs_ok or diffs:
        def s():
            for case, m, i in (diffs or [])[:1]:
                res.violation("model and C checksum disagree on %s: model %s, C %s" % (case[:80], m, i[:200]), "# engine cksum: seed hex\n%s\n# model: %s\n# impl: %s\n" % (case, m, i), found_input=False)
        proof_broken(res, "C12", s)
    return "proof"
