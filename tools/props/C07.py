"""C07 — OK means complete: output never exceeds, and on success equals, the declared size."""
import random
import vlib
from props.common import proof_broken
from props import robust

EXPLANATION = ("Theorems: written_le_requested / ok_implies_exact / short_is_error / extract_pair_bound over the output accounting shared by the four decoders, "
  "with the per-frame decoder abstracted to an arbitrary outcome sequence.  Search: every extract()/decompress() of the corpus (well-formed, damaged, hostile, "
  "with and without faults) is checked: bytes accepted by write() <= declared size, OK => equal (strict mode; salvage mode: upper bound only).")

def run(res, tier, replay):
    rng = random.Random(vlib.seed() * 49157 + 7)
    res.rule = ("every extract / decompress op of every scenario (repo files, generated, damaged, hostile; clean and with sampled single faults); declared size read from the "
                "listing before the call (OAB: target size field); non-trivial = distinct scenario with >= 1 extract op")
    proofs_ok = vlib.coq_gate(res, "Properties_C07")
    sw = robust.Sweep(res, tier, rng, dmg=(3 if tier == "quick" else 12))
    if sw.ok:
        n = robust.size_oracle(res, sw)
        nops = sum(1 for t in sw.clean for o in t.ops if o.declared is not None) + sum(1 for f in sw.run_faults() for o in f[5].ops if o.declared is not None)
        res.oblige("search: written <= declared and OK => complete on %d extract calls" % nops, n == 0)
        res.extra["extract_calls_checked"] = nops
        for c, t in zip(sw.cases, sw.clean):
            if any(o.declared is not None for o in t.ops): res.nontrivial.add(c.label + str(hash(c.scn.text())))
        for c in sw.cases[:3]: res.samples.append(c.label + " :: " + " | ".join(l for l in c.scn.lines if not l.startswith("file "))[:300])
    if not proofs_ok: proof_broken(res, "C07")
    return "proof"
