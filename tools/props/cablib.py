"""model <-> C comparison for single cabinet files (Model/Cab.v)"""
import random, struct
import vlib
from vlib import scenario, gen, cabfmt

def c_canonical(t):
    o = [x for x in t.ops if x.name == "cab_open"]
    if not o: return "?"
    o = o[0]
    if o.kv.get("ok") != "1": return "E%s" % o.kv.get("err")
    hl = [l for l in o.lines if l.startswith("cab 0 ")][0]
    kv = dict(x.split("=", 1) for x in hl.split()[2:])
    sx = lambda v: v          # strhex prints "-" for NULL, "e" for the empty string, hex otherwise
    out = "H%s %s %s %s %s %s %s %s %s %s" % (kv["len"], kv["setid"], kv["idx"], kv["hres"], kv["flags"], kv["base"], sx(kv["prev"]), sx(kv["next"]), sx(kv["pinfo"]), sx(kv["ninfo"]))
    for l in o.lines:
        if l.startswith(" folder "):
            kv = dict(x.split("=", 1) for x in l.split()[1:]); out += ";D %s %s" % (kv["comp"], kv["blocks"])
        elif l.startswith(" file "):
            kv = dict(x.split("=", 1) for x in l.split()[1:])
            out += ";F %s %s %s %s %s %s %s" % (kv["name"], kv["len"], kv["attr"], kv["fol"], kv["off"], kv["t"], kv["d"])
    for x in t.ops:
        if x.name == "cab_extract":
            if x.kv.get("nofile"): out += "#-"
            else: out += "#X %s %s" % (x.kv.get("st"), x.out if x.out not in (None, "absent") else "")
    return out

def scn_for(cab, salvage, fixmszip, bufsize, ops):
    sc = scenario.Scn().file("in0.cab", cab).op("cab_new").op("cab_param", 3, 1 if salvage else 0).op("cab_param", 1, 1 if fixmszip else 0).op("cab_param", 2, bufsize).op("cab_open", "c0", "in0.cab")
    for k, i in enumerate(ops): sc.op("cab_extract", "c0", i, "o%d" % k)
    return sc
def model_line(cab, salvage, fixmszip, bufsize, ops):
    return "%d %d %d %s %s" % (1 if salvage else 0, 1 if fixmszip else 0, bufsize, ",".join(str(i) for i in ops) or "-", vlib.hexs(cab))

def damage(rng, cab):
    b = bytearray(cab); r = rng.random()
    if r < 0.45:
        for _ in range(rng.choice([1, 1, 2, 4])): b[rng.randrange(len(b))] ^= 1 << rng.randrange(8)
    elif r < 0.6: b = b[:rng.randrange(20, len(b))]
    elif r < 0.85:
        # header area: 16/32-bit fields
        off = rng.randrange(0, min(len(b) - 2, 120)); struct.pack_into("<H", b, off, rng.choice([0, 1, 2, 0xFFFD, 0xFFFE, 0xFFFF, 0x8000, (struct.unpack_from("<H", b, off)[0] + rng.choice([-1, 1])) & 0xFFFF]))
    else:
        off = rng.randrange(0, len(b) - 4); struct.pack_into("<I", b, off, rng.choice([0, 1, 0x7FFFFFFF, 0xFFFFFFFF, len(b), len(b) - 1]))
    return bytes(b)

# ---------------------------------------------------------------- sets (Model/CabSet.v)
def set_scn(files, salvage, fixmszip, bufsize, ops):
    """files: list of cabinet byte strings; ops: list of ('o', k) | ('m', l, r, kind) | ('l', c) | ('x', c, idx)   (l / r may be None)"""
    sc = scenario.Scn()
    for k, f in enumerate(files): sc.file("in%d.cab" % k, f)
    sc.op("cab_new").op("cab_param", 3, 1 if salvage else 0).op("cab_param", 1, 1 if fixmszip else 0).op("cab_param", 2, bufsize)
    nx = 0
    for o in ops:
        if o[0] == "o": sc.op("cab_open", "c%d" % o[1], "in%d.cab" % o[1])
        elif o[0] == "m":
            l, r = o[1], o[2]; a = "c%d" % l if l is not None else "null"; b = "c%d" % r if r is not None else "null"
            if o[3] == "append": sc.op("cab_append", a, b) if l is not None else sc.op("cab_prepend", b, a)
            else: sc.op("cab_prepend", b, a) if r is not None else sc.op("cab_append", a, b)
        elif o[0] == "l": sc.op("cab_list", "c%d" % o[1])
        else: sc.op("cab_extract", "c%d" % o[1], o[2], "o%d" % nx); nx += 1
    return sc
def set_model_line(files, salvage, fixmszip, bufsize, ops):
    def enc(o):
        if o[0] == "o": return "o%d" % o[1]
        if o[0] == "m": return "m%s:%s" % ("-" if o[1] is None else o[1], "-" if o[2] is None else o[2])
        if o[0] == "l": return "l%d" % o[1]
        return "x%d:%d" % (o[1], o[2])
    return "%d %d %d %s %s" % (1 if salvage else 0, 1 if fixmszip else 0, bufsize, ",".join(enc(o) for o in ops), " ".join(vlib.hexs(f) for f in files))
def set_c_canonical(t):
    out = ""
    for x in t.ops:
        if x.name == "cab_open": out += "#O %s" % x.kv.get("err")
        elif x.name in ("cab_append", "cab_prepend"): out += "#M %s" % x.kv.get("st")
        elif x.name == "cab_list":
            hl = [l for l in x.lines if l.startswith("cab 0 ")]
            if not hl: out += "#-"; continue
            kv = dict(y.split("=", 1) for y in hl[0].split()[2:]); out += "#L %s %s" % (kv["haspc"], kv["hasnc"])
            for l in x.lines:
                if l.startswith(" folder "):
                    kv = dict(y.split("=", 1) for y in l.split()[1:]); out += ";D %s %s" % (kv["comp"], kv["blocks"])
                elif l.startswith(" file "):
                    kv = dict(y.split("=", 1) for y in l.split()[1:]); out += ";F %s %s %s %s %s" % (kv["name"], kv["len"], kv["attr"], kv["fol"], kv["off"])
        elif x.name == "cab_extract":
            if x.kv.get("nofile"): out += "#-"
            else: out += "#X %s %s" % (x.kv.get("st"), x.out if x.out not in (None, "absent") else "")
    return out
