"""Shared by C03 / C15: CHM case generation, model <-> C comparison in canonical text."""
import random
import vlib
from vlib import chmfmt, scenario

NAME_ALPH = [b"a", b"B", b"c", b"Z", b"0", b"_", b".", b"/", b"-", "é".encode(), "É".encode(), "ß".encode(), "日".encode(), "本".encode(),
             "\U0001F600".encode(), "\U0001F601".encode(), "\U00010348".encode(), "€".encode()]

def rand_name(rng, used, maxlen=24):
    for _ in range(1000):
        k = rng.choice([1, 2, 3, 5, 8, 12, maxlen])
        n = b"/" + b"".join(rng.choice(NAME_ALPH) for _ in range(k))
        if n.endswith(b"/"): n += b"x"
        key = tuple(chmfmt.sort_key(n)[0])
        if key in used or len(n) < 2: continue
        used.add(key); return n
    raise ValueError("name space exhausted")

def rand_chm(rng, big=False, nfiles=None, sec1=True, far_reset=False):
    """returns (chm bytes, expect dict, params dict)"""
    used = set()
    nf = nfiles if nfiles is not None else rng.choice([1, 3, 8, 40, 150] if not big else [300, 700])
    f0 = []
    for i in range(nf):
        n = rand_name(rng, used)
        f0.append((n, bytes(rng.randrange(256) for _ in range(rng.choice([0, 1, 7, 100, 600, 1500] if i < 30 else [0, 3])))))
    # near-collisions: names that extend another name, differ in the last character, differ by case only in the query
    for i in range(min(nf, 6)):
        base = f0[rng.randrange(len(f0))][0]
        for ext in (b".x", "\U0001F600".encode(), b"a"):
            n = base + ext; key = tuple(chmfmt.sort_key(n)[0])
            if key not in used: used.add(key); f0.append((n, b"ext")); break
    # names that do not start with a slash (real CHMs have #SYSTEM, $FIftiMain, ...), some of them empty files
    for nm in rng.sample([b"#SYSTEM", b"#STRINGS", b"#IDXHDR", b"#URLTBL", b"$FIftiMain", b"$OBJINST", b"$WWKeywordLinks/Property", b"#x", b"$$", b"index.hhc", b"a/b"], rng.choice([0, 2, 4])):
        key = tuple(chmfmt.sort_key(nm)[0])
        if key not in used: used.add(key); f0.append((nm, bytes(rng.randrange(256) for _ in range(rng.choice([0, 0, 5, 300])))))
    # pairs differing only in a final supplementary-plane character
    for i in range(rng.choice([0, 1, 2])):
        base = f0[rng.randrange(len(f0))][0]
        for ch in ("\U0001F600", "\U0001F601", "\U00010348"):
            n = base + ch.encode(); key = tuple(chmfmt.sort_key(n)[0])
            if key not in used: used.add(key); f0.append((n, ch.encode()))
    f1 = []
    if far_reset:
        # reset points whose compressed offset needs more than 16 bits, addressed through 4-byte reset-table entries
        sizes = [70000, 65536, rng.choice([20000, 40000]), 300]
        for i, sz in enumerate(sizes): f1.append((rand_name(rng, used), sz))
    elif sec1 and rng.random() < 0.8:
        sizes = [rng.choice([0, 1, 5, 300, 20000, 32768, 40000, 65536, 70000]) for _ in range(rng.randrange(1, 5))]
        for i, sz in enumerate(sizes): f1.append((rand_name(rng, used), sz))
    dirs = [rand_name(rng, used) + b"/" for _ in range(rng.choice([0, 1, 3]))]
    p = dict(chunk_size=rng.choice([64, 100, 200, 512, 4096, 8192] if not big else [256, 512]), density=rng.choice([0, 1, 2, 3, 5, 9]), wbits=rng.choice([15, 16, 17, 18]),
             reset_frames=rng.choice([1, 2, 4]), version=rng.choice([1, 2, 3]), rt_entry_size=rng.choice([8, 8, 4]), control_version=rng.choice([1, 2]),
             content_last=rng.random() < 0.7, with_rtable=rng.random() < 0.8, with_index=rng.random() < 0.8,
             rt_slack=rng.choice([0, 0, 8, 16, 5]), gaps=rng.choice([(0, 0, 0), (0, 0, 0), (8, 0, 0), (0, 24, 0), (0, 0, 40), (3, 5, 7)]))      # the reset table's entries need not follow its header directly
    # long system names need a chunk that can hold them
    if far_reset: p.update(rt_entry_size=4, with_rtable=True, reset_frames=rng.choice([1, 2]), lzx_match_p=0.01)
    if f1 and p["chunk_size"] < 200: p["chunk_size"] = 200
    chm, exp = chmfmt.build(f0, f1, rng, dirs=dirs, **p)
    return chm, exp, p

def c_canonical(t, nops_expected=None):
    """canonical text of a scenario transcript of: chm_new; chm_open|chm_fast_open; ops...  (same shape as the model driver prints)"""
    o = [x for x in t.ops if x.name in ("chm_open", "chm_fast_open")]
    if not o: return "?"
    o = o[0]
    if o.kv.get("ok") != "1": return "E%s" % o.kv.get("err")
    else:
        hl = [l for l in o.lines if l.startswith("chm ")][0]
        kv = dict(x.split("=") for x in hl.split()[1:])
        out = "H%s %s %s %s %s %s %s %s %s %s %s %s %s" % (o.kv.get("err"), kv["ver"], kv["lang"], kv["len"], kv["nchunks"], kv["csize"], kv["dens"], kv["depth"], kv["root"], kv["first"], kv["last"], kv["sec0off"], kv["diroff"])
        for l in o.lines:
            if l.startswith(" file ") or l.startswith(" sys "):
                kv = dict(x.split("=", 1) for x in l.split()[1:])
                out += ";%s %s %s %s %s" % ("F" if l.startswith(" file ") else "S", kv["name"] if kv["name"] != "-" else "", kv["sec"], kv["off"], kv["len"])
    for x in t.ops:
        if x.name == "chm_extract":
            if x.kv.get("nofile"): out += "#-"
            else: out += "#X %s %s" % (x.kv.get("st"), x.out or "")
        elif x.name == "chm_find":
            f = [l for l in x.lines if l.startswith("found ")]
            if not f: out += "#N %s none" % x.kv.get("st")
            elif f[0] == "found none": out += "#N %s none" % x.kv.get("st")
            else:
                kv = dict(y.split("=") for y in f[0].split()[1:]); out += "#N %s %s %s %s" % (x.kv.get("st"), kv["sec"], kv["off"], kv["len"])
    return out

def scn_for(chm, entire, ops):
    sc = scenario.Scn().file("in.chm", chm).op("chm_new").op("chm_open" if entire else "chm_fast_open", "h0", "in.chm")
    for k, o in enumerate(ops):
        if o[0] == "x": sc.op("chm_extract", "h0", int(o[1:]), "o%d" % k)
        elif o[0] == "f": sc.op("chm_find", "h0", o[1:])
        else: sc.op("chm_find", "h0", o[1:], "o%d" % k)
    return sc

def model_line(chm, entire, ops):
    return "%d %s %s" % (1 if entire else 0, ",".join(ops) or "-", vlib.hexs(chm))

def find_names(rng, names, k):
    """names to look up: listed ones, case variants, near misses, absent"""
    out = []
    for _ in range(k):
        nm = rng.choice(names); r = rng.random()
        if r < 0.35: out.append(("present", nm))
        elif r < 0.6: out.append(("case", bytes((c ^ 0x20) if (65 <= c <= 90 or 97 <= c <= 122) and rng.random() < 0.5 else c for c in nm)))
        elif r < 0.75: out.append(("absent", nm + rng.choice([b"x", b"0", "\U0001F601".encode(), b"/"])))
        elif r < 0.9 and len(nm) > 2: out.append(("absent", nm[:-1] if nm[-1] < 0x80 else nm + b"~"))
        else:
            b = bytearray(nm); i = rng.randrange(1, len(b)); b[i] = rng.choice(b"aZ09_~\x7f") if b[i] < 0x80 else b[i]
            out.append(("maybe", bytes(b)))
    return out
