#!/usr/bin/env python3
"""writes /verif/MANIFEST.json from the table below (one entry per claimed property)"""
import json, os
V = os.path.dirname(os.path.dirname(os.path.abspath(__file__)))
CLAIMS = {}
def claim(pid, technique, text, note, design="4"):
    CLAIMS[pid] = dict(technique=technique, text=text, note=note, design=design)

NOTE = ("Trusted: Coq 8.16.1 kernel + vm_compute (no native_compute, no axioms: every property theorem is 'Closed under the global context', re-checked each run); "
        "tools/regen.py (tables/constants printed by C programs that #include the real sources); ExtrOcamlBasic extraction + ocaml/drv.ml; the C harness and sanitizers. "
        "The hand-written Gallina model is tied to the C by differential execution on generated inputs (counted in the evidence), not verified against it.")

claim("C12", "Coq proof (XOR-checksum and CRC-32 injectivity per byte, block acceptance test) + model/C differential + single-byte corruption search",
      "Proof: for every payload, byte position and replacement value the CAB checksum changes, hence an accepted checksummed block is rejected after any one-byte change of payload or size fields, and a changed stored checksum is either 0 (unchecked, data intact) or rejected (4 theorems, closed); the OAB per-block CRC-32 over the regenerated table changes for every one-byte change of a block's data (C12_oab_crc_single_byte). The model's checksum is compared with the C cabd_checksum on generated buffers, and corrupted cabinets (incl. relaxed-then-strict parameter histories) are run through the real extract path. The OAB per-block CRC is modelled in Model/Oab.v (C06: table = polynomial, chunking independence, CHECKSUM on mismatch in the container theorem's negation is by correspondence).",
      NOTE, "4/C12")
claim("C01", "Coq proof (generic buffered-vs-ideal refinement instantiated for the MSZIP/LZX/Quantum ports; CAB block reader = honest stream; stored-folder extraction exact) + model/C differential + generated cabinets and sets through the real API",
      "Proof: for each ported CAB decoder, every input, every output-length hint and every buffer size > 0, the buffered run on an honest host equals the run on the ideal byte source; the CAB block reader (cabd_sys_read / cabd_sys_read_block with checksums, reserves, Quantum trailer) is an honest stream over the concatenated block payloads, so MSZIP / Quantum / uncompressed decoding behind it equals the ideal run for every DECOMPBUF; extract() of any member of an uncompressed folder returns exactly its bytes; open() reads back header, folder and file tables exactly. Model/Cab.v (open + extract sessions for one cabinet, strict and salvage) is run against the C library on intact and damaged cabinets. LZX behind the block reader (late output-length hint), cabinet sets and FIXMSZIP recovery are covered by correspondence / oracle only. The ports are compared with the C decoders on generated and damaged streams; generated cabinets/sets (all methods, reserves, split points, parameter settings) are listed and extracted through the real API and compared with the generator. Round-trip theorems for deflate/LZX/Quantum encoders are not proved (payload correctness rests on the correspondence); default stdio system: not modelled.",
      NOTE, "4/C01")
claim("C05", "Coq proof (LZSS round trip for all token streams and dialects; callback port refines the pure decoder for every buffer size; KWAJ header reader reads back every writable header; whole-file theorems for stored/XOR/SZDD KWAJ) + model/C differential",
      "Proof: lzss_roundtrip, lzss_impl_refines_spec, lzss_end_to_end, kwaj_open_enc, kwaj_file_none, kwaj_xor_roundtrip, KWAJ SZDD file round trip (all closed). Tie: the pure decoder vs the C lzss_decompress on encoder output, damaged and random streams at several buffer sizes; Model/Kwaj.v (headers + extract for NONE/XOR/SZDD/MSZIP) vs kwajd.c on generated and damaged KWAJ files; SZDD/KWAJ files built by the generator are opened/extracted through the real API and compared with the generator's header fields and plaintext (KWAJ MSZIP payload by correspondence only, LZH by generator oracle only).",
      NOTE, "4/C05")

claim("C09", "Coq proof (Hoare logic over a ledger monitor, for every host) on the SZDD/LZSS and KWAJ ports + L2 model/C callback correspondence with fault injection + fault sweep of the C library",
      "Proof: for every oracle (all inputs and all combinations of open/read/write/seek/alloc failures), the SZDD and the KWAJ scripts (create; decompress; destroy / create; open; extract x2; close; destroy) leave no live allocation and no open handle and never free/close anything not live (4 theorems, closed; KWAJ: the LZH and MSZIP decoders are abstract programs assumed to preserve the ledger). The ports are tied to szddd.c+lzssd.c and kwajd.c by identical callback traces under every single fault. The other three front ends (CAB, CHM, OAB) are covered by the fault sweep of the real library only (ledger read from the instrumented system) - stated as partial.",
      NOTE, "4/C09")
claim("C20", "Coq proof (contract monitor, for every host) on the SZDD/LZSS and KWAJ ports + L2 model/C callback correspondence + contract monitor in the instrumented system over all front ends",
      "Proof: for every oracle the SZDD and KWAJ scripts never raise the monitor's flag: open modes match name kinds, read/write/seek/tell/message only on open handles of the right mode, sizes non-negative, whence in range, free only of NULL or live pointers (4 theorems, closed; KWAJ with abstract LZH / MSZIP decoders). Tie as for C09. For CAB/CHM/OAB the same predicate (plus buffer capacity via ASan, copy overlap, filename identity) is checked on the C side only, over corpus/generated/damaged inputs with sampled single faults - partial.",
      NOTE, "4/C20")

claim("C02", "Coq proof (buffer-bound invariant, regenerated array extents, lifetimes for every host on the SZDD port) + ASan/UBSan sweep with fault injection over all front ends",
      "Proof: the CAB input buffer never holds more than 65535 (salvage) / 38912 (strict) bytes after any accepted sequence of block parts and that plus the Quantum trailer byte fits the array extent regenerated from cab.h; all Huffman table and code-length array extents regenerated from the headers satisfy the builders' needs; the SZDD/LZSS port never uses a released handle or frees twice under any host. Everything else (window indices, CHM chunk parsing, Huffman table construction, KWAJ/OAB paths) is covered by the sanitizer sweep of the real library only - partial, as DESIGN.md section 4/C02 states.",
      NOTE, "4/C02")

claim("C07", "Coq proof (output accounting of the frame loop with an abstract per-frame decoder; and of the real MSZIP, LZX and Quantum ports with no abstraction) + byte-count oracle on every extract call of the sweep",
      "Proof: for the accounting shared by lzxd/qtmd/mszipd/noned_decompress (flush stored-up bytes, then min(requested, produced) per frame, error if bytes remain) and any sequence of per-frame outcomes: bytes written <= requested, OK => exactly requested, fewer => non-OK; lifted through the skip-then-extract pair; the same three facts for mszipd_decompress, lzxd_decompress and qtmd_decompress as ported statement by statement (Model/Mszip.v, Model/Lzx.v, Model/Qtm.v), for every stream state, input and call sequence. The tie of this abstract loop to the four C loops is by the LZX/Quantum/MSZIP ports' correspondence (C01) and by the oracle that counts bytes accepted by write() against the declared size for every extract call of the sweep (CAB strict/salvage, CHM, OAB).",
      NOTE, "4/C07")

claim("C10", "Coq proof (host-failure tracking in the monitor semantics, for every host) on the SZDD/LZSS and KWAJ ports + L2 correspondence + single-fault sweep of all front ends vs the failure-free run",
      "Proof: for every host, the SZDD and the KWAJ decompress scripts return last_error = status, and status OK implies that no callback failed anywhere in the script (open/alloc NULL, read error, short or failed write, seek failure) - so an OK result is the failure-free result; wrong SZDD / KWAJ signatures are refused with MSPACK_ERR_SIGNATURE (KWAJ: tree predicates of Proofs/Rep.v; abstract LZH / MSZIP decoders assumed to report). Tie: identical callback traces/statuses/outputs of ports and C under every single fault. CAB/CHM/OAB: each fired single fault on every corpus scenario is compared op by op with the failure-free run on the C side only (partial).",
      NOTE, "4/C10")

claim("C08", "Coq proof (cache-coherence invariant of the decoder-reuse rule, any history; resumability of the real MSZIP port) + random and directed extraction histories vs a fresh decompressor on the C library",
      "Proof: C08_mszip_decoder_resumable - on the ported mszipd_decompress a request for a then b bytes equals a request for a + b (output, status, stream state), for every input and state; C08_mszip_history_independent - on the cabinet model (Model/Cab.v) every in-order list of members of an MSZIP folder extracted with one decompressor gets, call by call, what a fresh decompressor gives; and over an abstract folder (plaintext, optional damage point, frame granularity) and the reuse rule of cabd_extract (same folder, offset not behind the cursor, live decoder; permanent decoder errors; empty members skipped), every call after ANY history returns what a fresh decoder returns; intact folders always yield the exact slice. The rule is an abstraction of cabd_extract/chmd_extract, tied to the C by the history-vs-fresh oracle on generated cabinets, sets and CHMs (one third with a damaged folder), not by a line-by-line port.",
      NOTE, "4/C08")

claim("C11", "Coq proof (bisimulation: run independent of the contents of fresh memory, for every host) on the SZDD/LZSS and KWAJ ports + differential runs of the C library under four allocator fill patterns (hostile inputs: five more, small values that pass for code lengths)",
      "Proof: for every host and any two contents of freshly allocated memory the complete run of the SZDD and KWAJ scripts (result, every callback with its bytes, ledger) is identical. Tie: L2 correspondence. LZX (early-match rejection), MSZIP, Quantum, KWAJ-LZH, CAB and CHM paths are covered on the C side only: every corpus scenario and hostile inputs reaching unwritten memory are run under four allocator fill patterns and must give identical statuses, listings and bytes - partial.",
      NOTE, "4/C11")

claim("C04", "Coq proof (fuel bounds: LZSS loop, search resumption, CHM chunk walk for every link structure) + per-call edge-count budget on the C library built with coverage callbacks",
      "Proof: the LZSS port returns within |input|+1 iterations on every input and buffer size; cabd_find resumes strictly after every candidate header; the (repaired) fast_find walk ends within num_chunks visits whatever the chunk links say. All other loops (inflate, LZX, Quantum, LZH, block readers, OAB) are bounded on the C side only: edges executed per API call vs a budget linear in input+output bytes, hang detection by edge cap - partial.",
      NOTE, "4/C04")

claim("C13", "Coq proof (associativity of the list-level merge; the executable model of cabd_merge refines it) + executable set model vs the C library + all join orders / refusal scenarios",
      "Proof: the merge of folder and file lists (absorbing the continued folder with the shared block counted once, deleting the duplicate continued-file entries) gives the same lists whichever adjacent pair is joined first, for multi-folder and single-folder middle parts. Model/CabSet.v, an executable model of cabd_merge / cabd_can_merge_folders / extraction over joined sets with the object identities cabd.c compares, is run against the C library (all join orders, refused joins, damaged parts) and its list surgery is proved to be the abstract merge (C13_executable_merge_is_abstract_merge). The remaining pointer-level mechanics (list-head propagation to every member, close from any member) are tied by the oracle: every permutation of the adjacent joins with random append/prepend on generated sets, identical lists from every member, extraction of every member, refused joins leaving listings unchanged with a clean ledger - partial.",
      NOTE, "4/C13")

claim("C14", "Coq proof (buffer-size independence of the scanner, signature recognition from any prefix state, soundness) + extracted search loop vs C search() + embedded-cabinet oracle",
      "Proof: scanning buffer by buffer equals scanning the whole byte string; from every searching state of the (repaired) automaton the signature and 16 header bytes yield a candidate with both length fields decoded; search reports only offsets that parsed as cabinets. The extracted search loop (with parse = a generated cabinet starts here) and the C search() must report the same offsets on generated files; found cabinets are compared with the generator (offsets, listings via extraction of every member) for buffer sizes 4..64 and 32768. Completeness of the whole loop (every cabinet not nested in an earlier one is reported) is checked by the oracle, not proved.",
      NOTE, "4/C14")

claim("C16", "Coq proof (port of create_output_name: no dot-dot-slash, no leading slash, no NUL, buffer bound, for every name and case-folding function) + port vs C function + sandboxed runs of the cabextract binary with planted symlinks",
      "Proof: for every byte string as member name, every case-folding function, both separator conventions, UTF-8 or not: the name after 'dir/' contains no '../' or '..\\', does not start with a slash, has no NUL and fits 4 bytes per input byte (5 theorems, closed). The port is compared with the C function on generated names. The file-system half (ensure_filepath / can_write / fopen never going through a symlink in the archive-controlled part) is checked only by running the built binary in sandbox trees with planted live and dangling links and comparing the tree outside the destination before and after; races with other processes and the kernel are outside any model.",
      NOTE, "4/C16")

claim("C19", "Coq proof by computation over the regenerated list of static-storage objects (nm + clang AST: no writable object is stored to or escapes) + interleaved-instances oracle",
      "Proof: Gen/Globals.v is regenerated on every run from the objects compiled from the working tree and the clang AST of each unit; the theorem (vm_compute) says no object in a writable section is ever stored to or has its address passed to a non-const pointer, and that the known lookup tables are present and read-only. A data race needs shared mutable state; its absence is what is proved. Dynamic part: instances driven in interleaved order in one process must return what they return alone (LZX E8, Quantum, MSZIP, CHM). Real thread schedules, and state reachable only through the caller's mspack_system, are outside the model.",
      NOTE, "4/C19")

claim("C18", "Coq proof (each relaxed decision rule accepts what the strict rule accepts, with the same result; what salvage recovers) + four-combination differential runs on valid and derived cabinets",
      "Proof: for the file-table rule, the block size limits, the block checksum test and the member-length rule, strict acceptance implies relaxed acceptance with the same result; salvage lists exactly the valid entries in order; a block with intact data and a wrong non-zero stored checksum is refused strictly and accepted with the flag (6 theorems, closed). The rules are decision-level models of cabd.c; their tie is the oracle: generated cabinets and sets under the four SALVAGE x FIXMSZIP combinations give identical listings and bytes, and derived cabinets (bad folder indices, wrong stored checksums) are recovered exactly in the relaxed modes and refused in strict mode.",
      NOTE, "4/C18")

claim("C17", "Coq proof (per-member loop selects the same members in every mode; error count and exit status; permission bits swept over all umasks) + the built binary in all modes on generated cabinets and sets",
      "Proof: for arbitrary filter / extract / path / overwrite functions, every mode acts on exactly the filtered members in listing order; listing never fails; exit status zero iff no selected member failed; permission bits are 0444 | EXEC?0111 | !RDONLY?0222 minus the umask for all attribute combinations and all 512 umasks (finite sweep). The loop model is an abstraction of process_cabinet; fnmatch, mktime and MD5 are libc / separate code. Tie and search: the binary built from the tree on generated cabinets and sets in -l / -t / -p / extract with -F, -d, -q, from every part of a set - listings, timestamps, MD5s, piped bytes, file bytes, mtimes and mode bits (against the extracted port), exit status.",
      NOTE, "4/C17")

claim("C03", "Coq proof (ENCINT / entry / chunk / directory round trip for every entry list; section-0 extraction; reset-point arithmetic) + extracted model of chmd.c vs the C library on generated and damaged CHMs",
      "Proof: the directory side of the property in full generality (every value below 2^63, every entry list, every chunk and chunk list: open() lists exactly the stored entries, user and system files separately). Partial: the compressed section is modelled (ControlData / ResetTable / SpanInfo parsing, reset-point choice, skip-then-extract through the LZX port) and tied to the C library by running both on the same files and operation sequences, but that decoding from a reset point equals decoding from the start is not a theorem. Search: generator expectations (names, sections, offsets, lengths, bytes) against open() and extract() in forward / reverse / random orders.",
      NOTE, "4/C03")
claim("C15", "Coq proof (compare is an order on canonical UTF-8; search_chunk refines a search over parsed entries for every density; fast_find over chains and index trees of any depth equals lookup in the listing; chunk cache transparent for every history) + extracted model vs the C library",
      "Proof: unbounded in entries, chunk sizes, densities, index depth and lookup history; the chunk layout (wfc) and sortedness are hypotheses shown satisfiable on a sample CHM produced by the generator the checks use, and sortedness is derived for every directory of canonical UTF-8 names in increasing order. The lower-casing function is a parameter (the C library's towlower in the C locale is ASCII-only, which is what the extracted model uses). Tie and search: model (with cache) vs C on lookup sessions; every listed name, case variants, near misses, absent names in shuffled orders after open() and fast_open().",
      NOTE, "4/C15")

claim("C06", "Coq proof (window-bits selection, CRC table and chunking, container correctness of decompress / decompress_incremental for every block list, parametric in the block decoder) + extracted model of oabd.c vs the C library",
      "Proof: for every list of stored / LZX blocks, padding, trailing bytes and buffer size the model of oabd.c returns exactly the concatenated data, provided each block's stream decodes to its data under the window oabd.c selects - the LZX DELTA decoder itself is not proved correct against an encoder (partial): it is the port of lzxd.c tied to the C code by correspondence on generated streams (reference-data matches, extended lengths, per-frame chunk sizes). Search: generator targets vs C output with block sizes aimed at the window-size boundaries, buffer sizes 16..65536, plus damaged inputs for the correspondence.",
      NOTE, "4/C06")

def main():
    props = [json.loads(l)["id"] for l in open(os.path.join(V, "properties.jsonl"))]
    # only claim what has a check module
    have = [p for p in props if p in CLAIMS and os.path.exists(os.path.join(V, "tools", "props", p + ".py"))]
    m = {"version": 1,
         "setup_cmd": "cd /verif && python3 tools/setup.py",
         "hooks": {"guard": "KYZ_LIBMSPACK_VERIF", "enable": "no source hooks: the harness reaches the library through the public mspack_system vtable and wrapper translation units (harness/w_*.c) that #include the real .c files", "baseline_off_cmd": "make -C /repo/cabextract check", "source_commits": [], "add_only": True},
         "engines": [{"name": "coq", "path": "coq/", "serves_properties": have, "kind_free_text": "Gallina model + Coq proofs (Props/Properties_<id>.v), regenerated constants (coq/Gen)"},
                     {"name": "correspondence", "path": "tools/check", "serves_properties": have, "kind_free_text": "extracted OCaml model vs C harness built from /repo's working tree (ASan/UBSan), scenario runner with instrumented mspack_system"}],
         "checks": [], "notes": "see DESIGN.md; known findings in known_findings.json", "not_applicable": []}
    for p in props:
        if p in have:
            c = CLAIMS[p]
            m["checks"].append({"property_id": p, "quick_cmd": "python3 tools/check %s --tier quick" % p, "thorough_cmd": "python3 tools/check %s --tier thorough" % p,
                                "evidence_file": "/verif/evidence/%s.json" % p, "replay_cmd_template": "python3 tools/check %s --replay {path}" % p, "engine": "coq",
                                "level_claimed": {"category": "proof", "text": c["text"], "design_ref": c["design"]}, "level_note": c["note"], "technique": c["technique"]})
        else:
            m["not_applicable"].append({"property_id": p, "reason": "check not yet built in this revision (planned, see DESIGN.md section 4); not claimed"})
    json.dump(m, open(os.path.join(V, "MANIFEST.json"), "w"), indent=1)
    print("claimed:", have)
if __name__ == "__main__": main()
