import sys,random; sys.path.insert(0,'/verif/tools')
import vlib
from vlib import chmfmt, scenario
import os
exe=os.environ.get('DRV') or vlib.build_impl('asan')[2]
nbad=0
for seed in (range(int(sys.argv[1])) if len(sys.argv)<3 else [int(sys.argv[2])]):
    rng=random.Random(seed)
    f0=[(b"/index.html",b"<html>hello</html>"),(b"/a/B.txt",b"x"*700),(b"/empty",b"")]+[(b"/n%03d.dat"%i, bytes([i])*i) for i in range(rng.choice([0,5,120]))]
    sizes=[rng.choice([0,1,5,50000,70000,32768,65536,20000]) for _ in range(rng.randrange(1,5))]
    f1=[(b"/c%d.bin"%i,sz) for i,sz in enumerate(sizes)]
    rf=rng.choice([1,2,4]); wb=rng.choice([15,16,17,18])
    try:
        chm,exp=chmfmt.build(f0,f1,rng,chunk_size=rng.choice([200,512,4096]),density=rng.choice([0,1,2,5]),wbits=wb,reset_frames=rf,version=rng.choice([1,2,3]),
                         rt_entry_size=rng.choice([8,8,4]),control_version=rng.choice([1,2]),content_last=rng.random()<0.7,with_rtable=rng.random()<0.8)
    except ValueError as e:
        print(seed,'builder',e); continue
    sc=scenario.Scn().file("in.chm",chm).op("chm_new").op("chm_open","h0","in.chm")
    order=sorted(exp.keys(), key=chmfmt.sort_key)
    users=[n for n in order if not n.startswith(b"::")]
    idx=list(range(len(users))); rng.shuffle(idx); idx=idx[:12]
    for i in idx: sc.op("chm_extract","h0",i,"out%d"%i)
    t=scenario.run_scenarios(exe,[sc],timeout_each=10)[0]
    if len(sys.argv)>=3: print('\n'.join(l[:160] for l in t.raw if 'hex=' not in l and not l.startswith(' ')))
    if t.crash or t.hang: print(seed,'CRASH/HANG',(t.crash or 'hang')[-300:]); nbad+=1; continue
    exs=[o for o in t.ops if o.name=='chm_extract']
    for i,o in zip(idx,exs):
        want=exp[users[i]][3]
        if o.kv.get('st')!='0' or (o.out or '')!=want.hex():
            nbad+=1; print(seed,'member',users[i],exp[users[i]][:3],o.kv,o.outlen,'rf',rf,'wb',wb,'sizes',sizes); break
print('nbad',nbad)
