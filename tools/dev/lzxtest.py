import sys,random,subprocess; sys.path.insert(0,'/verif/tools')
import vlib
from vlib import lzxenc
# usage: lzxtest.py wb total ri nseeds [dbg]
wb,total,ri,n=map(int,sys.argv[1:5])
exe='/tmp/dbg/dbg_drv' if len(sys.argv)>5 else vlib.build_impl('asan')[2]
bad=0
for seed in range(n):
    rng=random.Random(seed)
    s,d=lzxenc.encode(rng,wb,total,reset_interval=ri)
    c="%d %d %d 0 - %d %s\n"%(wb,ri,total,total,s.hex())
    p=subprocess.run([exe,'lzx','4096'],input=c.encode(),capture_output=True)
    o=p.stdout.decode().split("\n"); last=o[-2].split()
    if last[0]!='0' or last[1]!=d.hex():
        bad+=1; print(seed,[l[-90:] for l in o[:-2]],last[0],len(last[1])//2 if len(last)>1 else 0)
print('bad',bad)
