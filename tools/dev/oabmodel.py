import sys, random, time; sys.path.insert(0, '/verif/tools')
import vlib
from vlib import scenario
from props import oablib
ok, log, mexe = vlib.build_model_drv()
if not ok: print(log[-3000:]); sys.exit(1)
iexe = vlib.build_impl('asan')[2]
n = int(sys.argv[1]); dmg = len(sys.argv) > 2 and sys.argv[2] == 'd'
lines = []; scns = []; labels = []
for seed in range(n):
    rng = random.Random(seed * 31 + 7); bs = rng.choice([16, 17, 100, 4096])
    if seed % 2 == 0:
        oab, plain, lab = oablib.full_case(rng, big=(seed % 10 == 0))
        if dmg: oab = oablib.damage(rng, oab, 16)
        lines.append(oablib.model_line_full(oab, bs)); scns.append(oablib.scn_full(oab, bs))
    else:
        pt, base, plain, lab = oablib.patch_case(rng, big=(seed % 6 == 1))
        if dmg:
            if rng.random() < 0.8: pt = oablib.damage(rng, pt, 28)
            else: base = base[:rng.randrange(len(base) + 1)]
        lines.append(oablib.model_line_patch(pt, base)); scns.append(oablib.scn_patch(pt, base, bs))
    labels.append((seed, lab, plain))
t0 = time.time(); rc, mo, err = vlib.run_lines(mexe, ["oab"], lines, timeout=3000); t1 = time.time()
trs = scenario.run_scenarios(iexe, scns, timeout_each=60); t2 = time.time()
bad = 0
for (seed, lab, plain), m, t in zip(labels, mo, trs):
    if t.crash or t.hang: print(seed, "CRASH/HANG", (t.crash or "hang")[-200:]); bad += 1; continue
    c = oablib.c_result(t)
    if c != m: bad += 1; print(seed, lab, "C:", c[:80], len(c), "| M:", m[:80], len(m))
    elif not dmg and m != "0 " + plain.hex(): bad += 1; print(seed, lab, "both differ from the plaintext", m[:40])
print("cases", len(lines), "bad", bad, "model %.1fs C %.1fs" % (t1 - t0, t2 - t1), err[-300:] if rc else "")
