import sys, random, time; sys.path.insert(0, '/verif/tools')
import vlib
from vlib import scenario
from props import kwajlib
ok, log, mexe = vlib.build_model_drv()
if not ok: print(log[-3000:]); sys.exit(1)
iexe = vlib.build_impl('asan')[2]
n = int(sys.argv[1]); dmg = len(sys.argv) > 2 and sys.argv[2] == 'd'
cases = []
for seed in range(n):
    rng = random.Random(seed * 131 + 1); f, plain, comp, flags = kwajlib.rand_kwaj(rng)
    if dmg: f = kwajlib.damage(rng, f)
    cases.append((seed, f, plain, comp, flags))
rc, mo, err = vlib.run_lines(mexe, ["kwaj"], [vlib.hexs(c[1]) for c in cases], timeout=3000)
trs = scenario.run_scenarios(iexe, [kwajlib.scn_for(c[1]) for c in cases])
bad = 0; unm = 0
for c, m, t in zip(cases, mo, trs):
    if t.crash or t.hang: print(c[0], "CRASH", (t.crash or "hang")[-150:]); continue
    cc = kwajlib.c_canonical(t)
    if "#X 98" in m: unm += 1; continue
    if cc != m: bad += 1; print(c[0], "comp", c[3], "flags", c[4], "C:", cc[:110], "| M:", m[:110])
    elif not dmg and c[3] in (0, 1, 2, 3, 4) and not m.endswith("#X 0 " + c[2].hex()): bad += 1; print(c[0], "plain mismatch", c[3], m[:80])
print("cases", len(cases), "bad", bad, "unmodelled", unm, err[-200:] if rc else "")
