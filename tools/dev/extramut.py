#!/usr/bin/env python3
"""run the hand-written changes in seeded/extra against their property's check; record suite status (12/12 expected) and the check's verdict"""
import sys, os, subprocess, json
V = "/verif"; names = sys.argv[1:] or sorted(os.listdir(V + "/seeded/extra"))
for n in names:
    d = "%s/seeded/extra/%s" % (V, n); m = json.load(open(d + "/meta.json")); pid = m["property"]
    # suite with the patch (in /repo itself is not allowed to be committed; build in a scratch worktree)
    sc = "/tmp/sx_" + n
    subprocess.run("git -C /repo worktree remove --force %s; rm -rf %s; %s/tools/mkscratch %s; git -C %s apply %s/patch.diff && make -C %s/cabextract -j4 >/dev/null 2>&1; make -C %s/cabextract check 2>&1 | grep -E '^# (PASS|FAIL)' > %s/suite.txt; git -C /repo worktree remove --force %s; rm -rf %s; git -C /repo worktree prune" % (sc, sc, V, sc, sc, d, sc, sc, d, sc, sc), shell=True, capture_output=True)
    suite = open(d + "/suite.txt").read().replace("\n", " ")
    p = subprocess.run([V + "/tools/mutcheck", d + "/patch.diff", pid], capture_output=True, timeout=3000); out = p.stdout.decode("utf-8", "replace")
    viol = [l for l in out.split("\n") if l.startswith("VIOLATION")]; notes = [l[2:] for l in out.split("\n") if l.startswith("# ") and "UNDISCHARGED" not in l]
    m["suite_with_patch"] = suite; m["check_exit"] = p.returncode; m["violations"] = len(viol); m["concrete"] = len([v for v in viol if "no-failing-input-found" not in v]); m["first_report"] = notes[0][:300] if notes else ""
    json.dump(m, open(d + "/meta.json", "w"), indent=1)
    print(n, pid, "suite:", suite, "| check rc", p.returncode, "viol", len(viol), "concrete", m["concrete"], "|", m["first_report"][:140], flush=True)
