import sys,random,time; sys.path.insert(0,'/verif/tools')
import vlib
from vlib import scenario
from props import cabtamper
orig=scenario.run_scenarios
def timed(exe,scns,**kw):
    r=orig(exe,scns,**kw)
    for i,t in enumerate(r[:90]):
        ops=[l for l in scns[i].lines if not l.startswith('file')]
        print(i,[ (o.kv.get('st'),o.outlen) for o in t.ops if o.name=='cab_extract'], len(ops))
    return r
scenario.run_scenarios=timed
class R:
    def __init__(s): s.evaluations=0; s.nontrivial=set(); s.samples=[]; s.dist={}
    def count(s,k,n=1): pass
    def oblige(s,*a): pass
    def violation(s,text,replay,key=None,found_input=True): print('VIOL',text[:100]); return True
cabtamper.search(R(),'quick',random.Random(1*7919+12))
