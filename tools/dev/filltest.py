import sys,random; sys.path.insert(0,'/verif/tools')
import vlib
from vlib import scenario, sweep
from props import robust
exe=vlib.build_impl('asan')[2]
class R:
    evaluations=0
    def violation(s,text,replay,key=None,found_input=True): print('VIOL',key,text[:160]); return True
rng=random.Random(1)
cases=sweep.uninit_cases(rng,3)
print(len(cases), robust.fill_oracle(R(),cases,exe))
