import sys, random, time; sys.path.insert(0, '/verif/tools')
import vlib
from vlib import scenario, gen
from props import cablib
ok, log, mexe = vlib.build_model_drv()
if not ok: print(log[-3000:]); sys.exit(1)
iexe = vlib.build_impl('asan')[2]
n = int(sys.argv[1]); dmg = len(sys.argv) > 2 and sys.argv[2] == 'd'
seeds = range(n) if len(sys.argv) < 4 else [int(sys.argv[3])]
cases = []
for seed in seeds:
    rng = random.Random(seed * 7907 + 3)
    c = gen.cab_set(rng); files = [c.files[nm] for nm in c.parts]; k = len(files)
    if dmg and rng.random() < 0.7:
        j = rng.randrange(k); files[j] = cablib.damage(rng, files[j])
    ops = [("o", i) for i in range(k)]
    order = list(range(1, k)); rng.shuffle(order) if rng.random() < 0.5 else None
    for j in order: ops.append(("m", j - 1, j, rng.choice(["append", "prepend"])))
    if rng.random() < 0.4: ops.insert(k + rng.randrange(len(order) + 1), ("m", rng.randrange(k), rng.choice([None, rng.randrange(k)]), "append"))
    for i in range(k):
        if rng.random() < 0.6: ops.append(("l", i))
    nm = len(c.members)
    for _ in range(rng.randrange(1, 7)): ops.append(("x", rng.randrange(k), rng.randrange(nm + 1)))
    par = (rng.random() < 0.25, rng.random() < 0.15, rng.choice([4, 7, 64, 4096, 65536]))
    cases.append((seed, files) + par + (ops,))
t0 = time.time(); rc, mo, err = vlib.run_lines(mexe, ["cabset"], [cablib.set_model_line(*c[1:]) for c in cases], timeout=3000); t1 = time.time()
trs = scenario.run_scenarios(iexe, [cablib.set_scn(*c[1:]) for c in cases]); t2 = time.time()
bad = 0; unm = 0
for c, m, t in zip(cases, mo, trs):
    if t.crash or t.hang: print(c[0], "CRASH/HANG", (t.crash or "hang")[-200:]); continue
    cc = cablib.set_c_canonical(t)
    if " 98" in m:
        unm += 1; k = m.index(" 98"); k = m.rfind("#", 0, k)
        if cc[:k] != m[:k]: bad += 1; print(c[0], "DIFF before unmodelled")
        continue
    if cc != m:
        bad += 1
        a = cc.split("#"); b = m.split("#")
        k = next((i for i in range(min(len(a), len(b))) if a[i] != b[i]), min(len(a), len(b)))
        print(c[0], "DIFF rec", k, "C:", (a[k] if k < len(a) else "")[:130], "| M:", (b[k] if k < len(b) else "")[:130], c[5][k - 1] if 0 < k <= len(c[5]) else "")
print("cases", len(cases), "bad", bad, "unmodelled", unm, "model %.1fs C %.1fs" % (t1 - t0, t2 - t1), err[-300:] if rc else "")
if len(seeds) == 1:
    c = cases[0]; print(c[2:5], c[5]); print("C:", [r[:60] for r in cc.split("#")]); print("M:", [r[:60] for r in m.split("#")])
    import sys
    from vlib import gen
    rng = random.Random(c[0] * 7907 + 3); cs = gen.cab_set(rng); print([f.method for f in cs.folders], cs.cuts, [(mm.name, mm.length) for mm in cs.members])
