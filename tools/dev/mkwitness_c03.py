import sys,random; sys.path.insert(0,'/verif/tools')
from vlib import chmfmt, scenario
rng=random.Random(7)
chm,exp=chmfmt.build([(b"/index.html",b"<html>hello</html>")],[(b"/c0.bin",65536)],rng,chunk_size=512,density=1,wbits=15,reset_frames=1)
sc=scenario.Scn().file("in.chm",chm).op("chm_new").op("chm_open","h0","in.chm").op("chm_extract","h0",0,"out0")
open('/verif/corpus/C03/lzx-length-multiple-of-reset-interval.scn','w').write("# expect: chm_extract of /c0.bin (65536 bytes, whole LZX stream, Content last in file) returns 0\n"+sc.text())
