import sys,random,time; sys.path.insert(0,'/verif/tools')
import vlib
from vlib import scenario
from props import cabtamper
class R:
    def __init__(s): s.evaluations=0; s.nontrivial=set(); s.samples=[]; s.dist={}
    def count(s,k,n=1): pass
    def oblige(s,*a): print('OBL',a[:2])
    def violation(s,text,replay,key=None,found_input=True):
        print('VIOL',text[:150]); open('/tmp/tamper_viol.scn','w').write(replay); return True
orig=scenario.run_scenarios
def timed(exe,scns,**kw):
    t0=time.time(); r=orig(exe,scns,**kw); print('run_scenarios',len(scns),time.time()-t0)
    for i,t in enumerate(r):
        if t.hang: print('HANG at',i); open('/tmp/tamper_hang.scn','w').write(scns[i].text())
    return r
scenario.run_scenarios=timed
cabtamper.search(R(),'quick',random.Random(1*7919+12))
