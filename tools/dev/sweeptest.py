import sys,random,collections; sys.path.insert(0,'/verif/tools')
import vlib
from vlib import scenario, sweep
exe=vlib.build_impl('asan')[2]
rng=random.Random(int(sys.argv[1]) if len(sys.argv)>1 else 1)
n=int(sys.argv[2]) if len(sys.argv)>2 else 4
cases=sweep.repo_cases()+sweep.generated_cases(rng,n)
cases+=sweep.damaged_cases(rng,cases,int(sys.argv[3]) if len(sys.argv)>3 else 2)
print(len(cases),'cases')
trs=scenario.run_scenarios(exe,[c.scn for c in cases],timeout_each=10)
stat=collections.Counter()
for c,t in zip(cases,trs):
    if t.hang: stat['hang']+=1; print('HANG',c.label)
    elif t.crash: stat['crash']+=1; print('CRASH',c.label,t.crash[-400:].replace('\n',' | ')[:400])
    else:
        if t.ledger.get('live_allocs') or t.ledger.get('open_handles'): stat['leak']+=1; print('LEAK',c.label,t.ledger)
        if t.viol: stat['viol']+=1; print('VIOL',c.label,t.viol[:3])
        for o in t.ops:
            if o.declared is not None and o.written>o.declared: print('OVERWRITE',c.label,o.kv,o.declared,o.written)
            if o.declared is not None and o.kv.get('st')=='0' and o.written!=o.declared: stat['short-ok']+=1; print('SHORTOK',c.label,o.kv,o.declared,o.written)
            if 'st' in o.kv and 'err' in o.kv and o.kv['st']!=o.kv['err']: stat['lasterr']+=1; print('LASTERR',c.label,o.name,o.kv)
            if 'ok' in o.kv and 'err' in o.kv and ((o.kv['ok']=='0')!=(o.kv['err']!='0')): stat['lasterr']+=1; print('LASTERR-open',c.label,o.name,o.kv)
    stat['ops']+=len(t.ops)
print(stat)
