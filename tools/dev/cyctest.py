import sys,random; sys.path.insert(0,'/verif/tools')
import vlib
from vlib import scenario, sweep
exe=vlib.build_impl('cov')[2]
cases=sweep.cycle_cases(random.Random(2),6)
trs=scenario.run_scenarios(exe,[c.scn.with_prefix("edgecap 200000000") for c in cases],timeout_each=10)
for c,t in zip(cases,trs): print(c.label,'HANG' if t.hang else '', [(o.name,o.kv.get('st')) for o in t.ops][2:7], (t.crash or '')[:100])
