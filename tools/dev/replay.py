import sys; sys.path.insert(0,'/verif/tools')
import vlib
from vlib import scenario
exe=vlib.build_impl(sys.argv[2] if len(sys.argv)>2 else 'asan')[2]
txt="".join(l for l in open(sys.argv[1]) if not l.startswith("#"))
t=scenario.run_scenarios(exe,[txt])[0]
print("\n".join(l[:170] for l in t.raw if 'hex=' not in l and not l.startswith(' f')))
print('CRASH:',(t.crash or '')[:1800]); print('HANG',t.hang, t.ledger, t.viol)
