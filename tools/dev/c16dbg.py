import sys,os,random,subprocess,shutil; sys.path.insert(0,'/verif/tools')
import vlib
from vlib import cabfmt
ok,log,exe=vlib.build_cabextract(); print(ok,exe)
w='/tmp/c16dbg'; shutil.rmtree(w,ignore_errors=True); os.makedirs(w+'/dest'); os.makedirs(w+'/outside')
os.symlink(w+'/outside', w+'/dest/assets')
mem=[cabfmt.Member(b"assets//dbl.txt", b"payload"), cabfmt.Member(b"assets/new.txt", b"p2")]
cab=cabfmt.build_single([cabfmt.Folder(('none',),mem)],random.Random(1)); open(w+'/t.cab','wb').write(cab)
r=subprocess.run([exe,'-d',w+'/dest',w+'/t.cab'],capture_output=True,cwd=w); print(r.stdout.decode(),r.stderr.decode())
print(os.listdir(w+'/outside'), os.path.islink(w+'/dest/assets'), os.listdir(w+'/dest'))
