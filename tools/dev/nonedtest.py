import sys,random; sys.path.insert(0,'/verif/tools')
import vlib
from vlib import scenario, cabfmt
exe=vlib.build_impl('asan')[2]
rng=random.Random(1)
mem=cabfmt.random_members(rng,2,lens=[100,40000])
f=cabfmt.Folder(('none',),mem)
cab=bytearray(cabfmt.build_single([f],rng))
# corrupt a payload byte of block 0
i=cab.index(mem[0].data[:20]); cab[i+5]^=0x40
sc=scenario.Scn().file("in.cab",bytes(cab)).op("cab_new").op("cab_open","c0","in.cab")
for k in (0,0,1,0): sc.op("cab_extract","c0",k,"out%d"%k)
t=scenario.run_scenarios(exe,[sc])[0]
for o in t.ops: print(o.name,o.kv,o.outlen, (o.out or '')[:20], mem[0].data[:10].hex())
