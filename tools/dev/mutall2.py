#!/usr/bin/env python3
"""run seeded changes against their property's check in isolated copies (tools/mutiso: scratch copy of /repo + scratch copy of /verif), several at a time;
records the outcome in each meta.json.   usage: mutall2.py [dir ...]   (default: seeded/C??, seeded/round{2,3,4}/C??, seeded/extra/*)"""
import sys, os, subprocess, json, re, glob, concurrent.futures
V = "/verif"
dirs = sys.argv[1:] or sorted(glob.glob(V + "/seeded/C??")) + sorted(glob.glob(V + "/seeded/round2/C??")) + sorted(glob.glob(V + "/seeded/round3/C??")) + sorted(glob.glob(V + "/seeded/round4/C??")) + sorted(glob.glob(V + "/seeded/round5/C??")) + sorted(glob.glob(V + "/seeded/round6/C??")) + sorted(glob.glob(V + "/seeded/round7/C??")) + sorted(glob.glob(V + "/seeded/round8/C??")) + sorted(glob.glob(V + "/seeded/round9/C??")) + sorted(glob.glob(V + "/seeded/extra/*"))
def one(d):
    m = json.load(open(d + "/meta.json")); pid = m["property"]
    p = subprocess.run([V + "/tools/mutiso", d + "/patch.diff", pid], capture_output=True, timeout=6000)
    out = p.stdout.decode("utf-8", "replace")
    viol = [l for l in out.split("\n") if l.startswith("VIOLATION")]
    notes = [l[2:] for l in out.split("\n") if l.startswith("# ") and not l.startswith("# UNDISCHARGED")]
    und = [l[2:] for l in out.split("\n") if l.startswith("# UNDISCHARGED")]
    concrete = [v for v in viol if "no-failing-input-found" not in v]
    m["check_result"] = {"command": "tools/mutiso %s/patch.diff %s   # scratch worktree of /repo + patch, scratch copy of /verif, tools/check %s --tier quick" % (os.path.relpath(d, V), pid, pid),
                         "exit": p.returncode, "violation_lines": len(viol), "with_concrete_failing_input": len(concrete), "first_reports": [n[:300] for n in notes[:3]], "undischarged": [u[:300] for u in und[:4]]}
    json.dump(m, open(d + "/meta.json", "w"), indent=1)
    return (os.path.relpath(d, V + "/seeded"), pid, p.returncode, len(viol), len(concrete), (notes[0] if notes else "")[:140])
rows = []
with concurrent.futures.ThreadPoolExecutor(6) as ex:
    for r in ex.map(one, dirs):
        rows.append(r); print(r, flush=True)
try: old = {r[0]: r for r in json.load(open(V + "/seeded/check_results.json"))}
except Exception: old = {}
for r in rows: old[r[0]] = list(r)
json.dump([old[k] for k in sorted(old)], open(V + "/seeded/check_results.json", "w"), indent=1)
print("caught %d of %d" % (sum(1 for r in rows if r[2] == 1), len(rows)))
