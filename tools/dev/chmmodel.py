import sys, random, os, time; sys.path.insert(0, '/verif/tools')
import vlib
from vlib import chmfmt, scenario
from props import chmlib
ok, log, mexe = vlib.build_model_drv()
if not ok: print(log[-3000:]); sys.exit(1)
iexe = vlib.build_impl('asan')[2]
n = int(sys.argv[1]); damage = len(sys.argv) > 2 and sys.argv[2] == 'd'
seeds = range(n) if len(sys.argv) < 4 else [int(sys.argv[3])]
cases = []
for seed in seeds:
    rng = random.Random(seed * 7919 + 5)
    try: chm, exp, p = chmlib.rand_chm(rng)
    except ValueError as e: continue
    names = sorted(exp.keys(), key=chmfmt.sort_key)
    users = [nm for nm in names if not nm.startswith(b"::")]
    entire = rng.random() < 0.6
    ops = []
    for _ in range(rng.randrange(1, 8)):
        r = rng.random()
        if r < 0.4: ops.append("x%d" % rng.randrange(len(exp) + 1))
        elif r < 0.7: ops.append("f" + rng.choice(names).hex())
        elif r < 0.85: ops.append("F" + rng.choice(names).hex())
        else:
            nm = bytearray(rng.choice(names)); nm[rng.randrange(len(nm))] ^= rng.choice([0x20, 1, 0x80]); 
            if 0 in nm: nm = nm.replace(b"\0", b"q")
            ops.append("f" + bytes(nm).hex())
    if damage:
        b = bytearray(chm)
        for _ in range(rng.choice([1, 1, 2, 5])):
            pos = rng.randrange(len(b)) if rng.random() < 0.5 else rng.randrange(min(len(b), 0x60 + 0x54 + 3000))
            b[pos] ^= 1 << rng.randrange(8)
        chm = bytes(b)
    cases.append((seed, chm, entire, ops, p))
t0 = time.time()
rc, mo, err = vlib.run_lines(mexe, ["chm"], [chmlib.model_line(c[1], c[2], c[3]) for c in cases], timeout=600)
t1 = time.time()
trs = scenario.run_scenarios(iexe, [chmlib.scn_for(c[1], c[2], c[3]).hexout(1) if False else chmlib.scn_for(c[1], c[2], c[3]) for c in cases])
t2 = time.time()
nbad = 0
for c, m, t in zip(cases, mo, trs):
    if t.crash or t.hang: print(c[0], "CRASH", (t.crash or "hang")[-200:]); nbad += 1; continue
    cc = chmlib.c_canonical(t)
    if "#X 98" in m or " 98 " in m.split("#")[0][:4]: continue
    if cc != m:
        nbad += 1
        # first differing record
        a = cc.replace("#", ";").split(";"); b = m.replace("#", ";").split(";")
        k = next((i for i in range(min(len(a), len(b))) if a[i] != b[i]), min(len(a), len(b)))
        print(c[0], "DIFF rec", k, "C:", (a[k] if k < len(a) else None or "")[:150], "| M:", (b[k] if k < len(b) else None or "")[:150], c[2], c[3][:3], c[4])
print("cases", len(cases), "bad", nbad, "model %.1fs C %.1fs" % (t1 - t0, t2 - t1), err[-300:] if rc else "")
if len(seeds) == 1:
    a = cc.replace("#", ";").split(";"); b = m.replace("#", ";").split(";")
    for i in range(max(0,k-3), min(len(a), len(b), k+3)): print(i, "C:", a[i][:100], "| M:", b[i][:100])
