#!/bin/bash
# debug build of the harness (library compiled with -DDEBUG: D(()) messages on stdout) -> /tmp/dbg/dbg_drv
mkdir -p /tmp/dbg && cd /tmp/dbg && rm -f *.o
F="$(cat /verif/harness/features.txt)"
for u in cabd chmd szddd kwajd oabd lzxd qtmd mszipd lzssd system crc32; do gcc -O0 -g -DDEBUG $F -I/repo/libmspack/mspack -I/verif/harness -w -c /verif/harness/w_$u.c -o w_$u.o & done
for u in sysmon scn units main cov; do gcc -O0 -g $F -I/repo/libmspack/mspack -I/verif/harness -c /verif/harness/$u.c -o $u.o & done
wait; gcc -o dbg_drv *.o && echo built
