#!/usr/bin/env python3
"""mkmut.py <name> <property> <file relative to /repo> <old text> <new text> [note]: make a one-hunk patch under seeded/extra/<name>/ (never committed to /repo)"""
import sys, subprocess, os, json
name, prop, rel, old, new = sys.argv[1:6]; note = sys.argv[6] if len(sys.argv) > 6 else ""
p = os.path.join("/repo", rel); s = open(p).read()
assert s.count(old) == 1, "old text occurs %d times" % s.count(old)
open(p, "w").write(s.replace(old, new))
d = "/verif/seeded/extra/" + name; os.makedirs(d, exist_ok=True)
diff = subprocess.run(["git", "-C", "/repo", "diff"], capture_output=True).stdout.decode()
open(d + "/patch.diff", "w").write(diff)
subprocess.run(["git", "-C", "/repo", "checkout", "--", "."])
json.dump({"property": prop, "what": note, "origin": "hand-written while testing the checks (no demonstration program; suite status recorded by tools/dev/extramut.py)"}, open(d + "/meta.json", "w"), indent=1)
print("wrote", d)
