import sys,random; sys.path.insert(0,'/verif/tools')
import vlib
from vlib import oabfmt, scenario
exe=vlib.build_impl('asan')[2]
scns=[];exp=[]
for seed in range(int(sys.argv[1])):
    rng=random.Random(seed)
    if seed%2==0:
        sizes=[rng.choice([0,1,100,5000,40000,140000]) for _ in range(rng.randrange(1,4))]
        oab,plain=oabfmt.build_full(rng,sizes)
        sc=scenario.Scn().file("in.oab",oab).op("oab_new").op("oab_param",0,rng.choice([16,17,100,4096])).op("oab_decompress","in.oab","out0")
    else:
        blocks=[(rng.choice([0,10,5000,40000]),rng.choice([1,100,5000,40000,70000])) for _ in range(rng.randrange(1,3))]
        pt,base,plain=oabfmt.build_patch(rng,blocks)
        sc=scenario.Scn().file("in.pat",pt).file("in.base",base).op("oab_new").op("oab_param",0,rng.choice([16,100,4096])).op("oab_incr","in.pat","in.base","out0")
    scns.append(sc);exp.append(plain)
trs=scenario.run_scenarios(exe,scns,timeout_each=30)
bad=0
for i,(t,p) in enumerate(zip(trs,exp)):
    o=[x for x in t.ops if x.name in('oab_decompress','oab_incr')]
    if t.crash or t.hang or not o or o[0].kv.get('st')!='0' or (o[0].out or '')!=p.hex():
        bad+=1; print(i,(t.crash or '')[-200:],t.hang,o[0].kv if o else None, o[0].outlen if o else None,len(p))
print('bad',bad)
