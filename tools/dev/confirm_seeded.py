#!/usr/bin/env python3
"""Confirm each candidate change in its own scratch worktree (never in /repo): the patch applies, cabextract builds, the pinned
suite still passes 12/12, the demonstration shows the property broken with the patch and holding without it.  Confirmed ones are
copied to /verif/seeded/<id>/ with a meta.json recording what was run.   usage: confirm_seeded.py [ids...]"""
import sys, os, subprocess, json, shutil, re, concurrent.futures
V = "/verif"; CAND = os.environ.get("CAND", V + "/seeded/candidates"); DST = os.environ.get("DST", V + "/seeded")
def sh(cmd, cwd=None, timeout=1800):
    p = subprocess.run(cmd, shell=True, cwd=cwd, capture_output=True, timeout=timeout)
    return p.returncode, (p.stdout + p.stderr).decode("utf-8", "replace")
def confirm(pid):
    d = "/tmp/sc_%s" % pid; log = {}
    sh("git -C /repo worktree remove --force %s" % d); shutil.rmtree(d, ignore_errors=True)
    rc, out = sh("%s/tools/mkscratch %s" % (V, d)); log["worktree"] = "tools/mkscratch %s (git worktree of /repo HEAD + build tree) rc=%d" % (d, rc)
    try:
        rc, out = sh("git -C %s apply %s/%s/patch.diff" % (d, CAND, pid)); log["apply"] = rc
        if rc: return pid, False, log
        rc, out = sh("make -C %s/cabextract -j4 2>&1 | tail -5" % d); log["build_rc"] = rc
        rc, out = sh("make -C %s/cabextract check 2>&1 | grep -E '^# (TOTAL|PASS|FAIL|ERROR)'" % d)
        m = dict(re.findall(r"# (\w+):\s+(\d+)", out)); log["suite_patched"] = m
        suite_ok = m.get("TOTAL") == "12" and m.get("PASS") == "12"
        rc1, out1 = sh("sh %s/%s/demo/run.sh %s" % (CAND, pid, d), timeout=900); log["demo_patched_exit"] = rc1; log["demo_patched_tail"] = out1[-400:]
        sh("git -C %s checkout -- ." % d)
        rc, out = sh("make -C %s/cabextract -j4 2>&1 | tail -5" % d)
        rc0, out0 = sh("sh %s/%s/demo/run.sh %s" % (CAND, pid, d), timeout=900); log["demo_clean_exit"] = rc0; log["demo_clean_tail"] = out0[-200:]
        ok = suite_ok and rc1 != 0 and rc0 == 0 and log["build_rc"] == 0
        return pid, ok, log
    finally:
        sh("git -C /repo worktree remove --force %s" % d); shutil.rmtree(d, ignore_errors=True); sh("git -C /repo worktree prune")
ids = sys.argv[1:] or sorted(os.listdir(CAND))
with concurrent.futures.ThreadPoolExecutor(4) as ex:
    for pid, ok, log in ex.map(confirm, ids):
        print(pid, "CONFIRMED" if ok else "NOT CONFIRMED", {k: v for k, v in log.items() if "tail" not in k})
        if not ok: print("   ", log.get("demo_patched_tail", "")[-300:].replace("\n", " | ")); continue
        dst = "%s/%s" % (DST, pid); shutil.rmtree(dst, ignore_errors=True); os.makedirs(dst)
        shutil.copy("%s/%s/patch.diff" % (CAND, pid), dst); shutil.copytree("%s/%s/demo" % (CAND, pid), dst + "/demo")
        cm = json.load(open("%s/%s/meta.json" % (CAND, pid)))
        meta = {"property": pid, "breaks": cm.get("summary"), "needs_to_manifest": cm.get("needs_to_manifest"), "files_changed": cm.get("files_changed"),
                "origin": "written by a sub-agent that was given only the property text and its own scratch worktree (its report: how_verified below)", "how_verified_by_author": cm.get("how_verified"),
                "confirmed_here": {"what_i_ran": ["tools/mkscratch /tmp/sc_%s   # scratch worktree of /repo HEAD" % pid, "git apply patch.diff", "make -C cabextract -j4", "make -C cabextract check", "sh demo/run.sh <worktree>   # with the patch", "git checkout -- . && make && sh demo/run.sh <worktree>   # without the patch", "git worktree remove --force"],
                                   "builds": log["build_rc"] == 0, "suite_with_patch": log["suite_patched"], "demo_exit_with_patch": log["demo_patched_exit"], "demo_exit_without_patch": log["demo_clean_exit"], "demo_output_with_patch": log["demo_patched_tail"]}}
        json.dump(meta, open(dst + "/meta.json", "w"), indent=1)
