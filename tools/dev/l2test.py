import sys,random; sys.path.insert(0,'/verif/tools')
import vlib
from vlib import scenario, sweep, kwajfmt, l2
mexe=vlib.build_model_drv(); print(mexe[:2]); mexe=mexe[2]
exe=vlib.build_impl('asan')[2]
rng=random.Random(3)
n=0;bad=0
for trial in range(int(sys.argv[1]) if len(sys.argv)>1 else 6):
    kind=trial%2; enc,plain=sweep.py_lzss(rng, rng.choice([0,3,30]), 0 if kind==0 else 2)
    f=kwajfmt.szdd(kind,len(plain),enc)
    if trial%5==4: f=f[:rng.randrange(len(f))]
    for script in "AB":
        def mk(faults):
            sc=scenario.Scn().file("in0.sz",f).trace(1)
            for (k,i,m) in faults: sc.fault(k,i,"short" if m else "err")
            sc.op("szdd_new")
            if script=="A": sc.op("szdd_decompress","in0.sz","out0")
            else: sc.op("szdd_open","h0","in0.sz").op("szdd_extract","h0","out0").op("szdd_extract","h0","out1").op("szdd_close","h0")
            sc.op("szdd_destroy"); return sc
        clean=scenario.run_scenarios(exe,[mk([])])[0]
        plans=[[]]
        for k in ("open","read","write","seek","alloc"):
            for i in range(clean.calls.get(k,0)):
                plans.append([(k,i,0)])
                if k=="write" and i<3: plans.append([(k,i,1)])
        plans=plans[:80]
        trs=scenario.run_scenarios(exe,[mk(p) for p in plans])
        lines=["%s %s %s"%(script, ",".join("%d:%d:%d"%(l2.KIND_CODE[k],i,m) for (k,i,m) in p) or "-", f.hex() or "-") for p in plans]
        rc,out,err=vlib.run_lines(mexe,["szddl2"],lines)
        for p,t,o in zip(plans,trs,out):
            n+=1
            st,ev,outs=l2.parse_model(o)
            cev=l2.canon(t.raw)
            if script=="A": cst=[int(x.kv['st']) for x in t.ops if x.name=='szdd_decompress']+[int(x.kv['err']) for x in t.ops if x.name=='szdd_decompress']
            else: cst=None
            if ev!=cev or t.crash:
                bad+=1
                if bad<4:
                    print("DIFF",script,p,t.crash); 
                    for a,b in zip(ev,cev):
                        if a!=b: print("  first diff model",a,"C",b); break
                    print("  lens",len(ev),len(cev), st, cst)
print(n,'scenarios',bad,'bad')
