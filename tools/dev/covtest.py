import sys,random; sys.path.insert(0,'/verif/tools')
import vlib
from vlib import scenario, sweep
ok,log,exe=vlib.build_impl('cov'); print(ok,log[-300:])
rng=random.Random(1)
cases=sweep.repo_cases()+sweep.generated_cases(rng,4)+sweep.hostile_cases(rng,4)
cases+=sweep.damaged_cases(rng,cases,1)
trs=scenario.run_scenarios(exe,[c.scn for c in cases],timeout_each=20)
rows=[]
for c,t in zip(cases,trs):
    insz=sum(len(l.split()[2])//2 for l in c.scn.lines if l.startswith('file ') and l.split()[2]!='-')
    if t.hang: print('HANG',c.label); continue
    for o in t.ops:
        e=o.work.get('edges',0); w=(o.written or 0)+(o.outlen or 0)
        rows.append((e/(insz+w+64), e, insz, w, c.label, o.name))
rows.sort(reverse=True)
for r in rows[:12]: print("%.1f edges/byte e=%d in=%d out=%d %s %s"%r)
print(len(rows))
