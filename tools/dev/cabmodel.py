import sys, random, time; sys.path.insert(0, '/verif/tools')
import vlib
from vlib import scenario, gen, cabfmt
from props import cablib
ok, log, mexe = vlib.build_model_drv()
if not ok: print(log[-3000:]); sys.exit(1)
iexe = vlib.build_impl('asan')[2]
n = int(sys.argv[1]); dmg = len(sys.argv) > 2 and sys.argv[2] == 'd'
seeds = range(n) if len(sys.argv) < 4 else [int(sys.argv[3])]
cases = []
for seed in seeds:
    rng = random.Random(seed * 104729 + 11)
    c = gen.cab_single(rng, big=(seed % 3 == 0))
    cab = list(c.files.values())[0]
    nm = len(c.members)
    ops = [rng.randrange(nm + 1) for _ in range(rng.randrange(1, 6))] if rng.random() < 0.6 else list(range(nm))
    salvage = rng.random() < 0.3; fixz = rng.random() < 0.2; bs = rng.choice([4, 5, 7, 64, 4096, 65536])
    if dmg: cab = cablib.damage(rng, cab)
    cases.append((seed, cab, salvage, fixz, bs, ops, c))
t0 = time.time(); rc, mo, err = vlib.run_lines(mexe, ["cab"], [cablib.model_line(*c[1:6]) for c in cases], timeout=3000); t1 = time.time()
trs = scenario.run_scenarios(iexe, [cablib.scn_for(*c[1:6]) for c in cases]); t2 = time.time()
bad = 0; unm = 0
for c, m, t in zip(cases, mo, trs):
    if t.crash or t.hang: print(c[0], "CRASH/HANG", (t.crash or "hang")[-200:]); continue
    cc = cablib.c_canonical(t)
    if "#X 98" in m:
        unm += 1; k = m.index("#X 98"); 
        if cc[:k] != m[:k]: bad += 1; print(c[0], "DIFF before unmodelled")
        continue
    if cc != m:
        bad += 1
        a = cc.replace("#", ";").split(";"); b = m.replace("#", ";").split(";")
        k = next((i for i in range(min(len(a), len(b))) if a[i] != b[i]), min(len(a), len(b)))
        print(c[0], "DIFF rec", k, "C:", (a[k] if k < len(a) else "")[:110], "| M:", (b[k] if k < len(b) else "")[:110], "salv", c[2], "fixz", c[3], "bs", c[4], "ops", c[5], [f.method for f in c[6].folders])
print("cases", len(cases), "bad", bad, "unmodelled", unm, "model %.1fs C %.1fs" % (t1 - t0, t2 - t1), err[-300:] if rc else "")
