#!/usr/bin/env python3
"""run each seeded change against its property's check (tools/mutcheck applies it to /repo, runs, reverts); records the outcome in seeded/<id>/meta.json and prints a table"""
import sys, os, subprocess, json, re
V = "/verif"
ids = sys.argv[1:] or sorted(d for d in os.listdir(V + "/seeded") if re.match(r"C\d\d$", d))
rows = []
for pid in ids:
    p = subprocess.run([V + "/tools/mutcheck", "%s/seeded/%s/patch.diff" % (V, pid), pid], capture_output=True, timeout=3000)
    out = p.stdout.decode("utf-8", "replace")
    viol = [l for l in out.split("\n") if l.startswith("VIOLATION")]
    notes = [l[2:] for l in out.split("\n") if l.startswith("# ") and not l.startswith("# UNDISCHARGED")]
    und = [l[2:] for l in out.split("\n") if l.startswith("# UNDISCHARGED")]
    concrete = [v for v in viol if "no-failing-input-found" not in v]
    mp = "%s/seeded/%s/meta.json" % (V, pid); m = json.load(open(mp))
    m["check_result"] = {"command": "tools/mutcheck seeded/%s/patch.diff %s   # git -C /repo apply; tools/check %s --tier quick; git -C /repo checkout -- ." % (pid, pid, pid), "exit": p.returncode,
                         "violation_lines": len(viol), "with_concrete_failing_input": len(concrete), "first_reports": notes[:3], "undischarged": und[:4]}
    json.dump(m, open(mp, "w"), indent=1)
    rows.append((pid, p.returncode, len(viol), len(concrete), (notes[0] if notes else "")[:150]))
    print(rows[-1], flush=True)
    st = subprocess.run("git -C /repo status --short | head -2", shell=True, capture_output=True).stdout.decode()
    if st.strip(): print("!! /repo not clean after", pid, st); break
json.dump(rows, open(V + "/seeded/check_results.json", "w"), indent=1)
