#!/usr/bin/env python3
"""setup_cmd: full clean build of the Coq development, the extracted model driver and the C harness variants."""
import os, sys, shutil, subprocess
sys.path.insert(0, os.path.dirname(os.path.abspath(__file__)))
import vlib
def main():
    ok, out = vlib.regen(); print(out.strip())
    if not ok: print("regen failed"); return 1
    vlib.coq_makefile()
    subprocess.run(["make", "clean"], cwd=vlib.COQ, stdout=subprocess.DEVNULL, stderr=subprocess.DEVNULL)
    rc, out = vlib.sh(["make", "-k", "-j%d" % vlib.NCPU], cwd=vlib.COQ, timeout=3000)
    print(out[-3000:] if rc else "coq build ok")
    ok, log, exe = vlib.build_model_drv(); print("model_drv", ok, log[-500:] if not ok else "")
    for v in ("asan", "cov", "plain"):
        ok2, log, exe = vlib.build_impl(v); print("impl", v, ok2, log[-500:] if not ok2 else "")
    return 0      # a broken proof is reported by the property's own check, not by setup
if __name__ == "__main__": sys.exit(main())
