#!/usr/bin/env python3
"""Gen/Globals.v: every object with static storage duration in the library's translation units, whether the linker puts it in a
writable section (nm on the object compiled from the working tree), how many stores the source makes to it and how many times
its address (or the array itself) is handed to something that could write through it (clang AST of the translation unit).

record: (file, name, writable, stores, escapes, size)"""
import os, sys, subprocess, json, tempfile, shutil
VERIF = os.path.dirname(os.path.dirname(os.path.abspath(__file__)))
REPO = os.environ.get("VERIF_REPO", "/repo")
MSPACK = os.path.join(REPO, "libmspack", "mspack")
FEATS = open(os.path.join(VERIF, "harness", "features.txt")).read().split()
UNITS = ["cabd", "chmd", "szddd", "kwajd", "oabd", "lzxd", "qtmd", "mszipd", "lzssd", "system", "crc32"]

ASSIGN_OPS = {"=", "+=", "-=", "*=", "/=", "%=", "<<=", ">>=", "&=", "|=", "^="}

def is_const_ptr_param(qual):
    """parameter type like 'const void *' / 'const char *': writes through it are not possible"""
    q = qual.replace(" ", "")
    return q.startswith("const") and q.endswith("*")

def analyse(unit):
    src = os.path.join(MSPACK, unit + ".c")
    r = subprocess.run(["clang", "-fsyntax-only", "-w"] + FEATS + ["-I", MSPACK, "-Xclang", "-ast-dump=json", src], capture_output=True)
    if r.returncode != 0: return None
    ast = json.loads(r.stdout)
    statics = {}      # decl id -> name
    def collect(node, in_func):
        k = node.get("kind")
        if k == "VarDecl":
            sc = node.get("storageClass"); loc_file = True
            if (not in_func) or sc == "static":
                # only declarations that come from this .c or the library's own headers (not system headers)
                statics[node["id"]] = node.get("name", "?")
        for ch in node.get("inner", []) or []:
            collect(ch, in_func or k == "FunctionDecl")
    # restrict to declarations located in the library directory: clang omits 'file' when unchanged, so track it
    cur = {"file": None}
    def collect2(node, in_func):
        loc = node.get("loc", {})
        f = loc.get("file") or (loc.get("spellingLoc", {}) or {}).get("file") or (loc.get("expansionLoc", {}) or {}).get("file")
        if f: cur["file"] = f
        k = node.get("kind")
        if k == "VarDecl" and cur["file"] and cur["file"].startswith(MSPACK):
            sc = node.get("storageClass")
            if ((not in_func) or sc == "static") and sc != "extern":
                statics[node["id"]] = (node.get("name", "?"), node.get("type", {}).get("qualType", ""))
        for ch in node.get("inner", []) or []:
            collect2(ch, in_func or k == "FunctionDecl")
    collect2(ast, False)
    stores = {i: 0 for i in statics}; escapes = {i: 0 for i in statics}
    def refs(node):
        """decl ids referenced directly (through member / subscript / paren / implicit casts) by this expression"""
        k = node.get("kind")
        if k == "DeclRefExpr":
            d = node.get("referencedDecl", {}).get("id")
            return [d] if d in statics else []
        if k in ("MemberExpr", "ArraySubscriptExpr", "ParenExpr", "ImplicitCastExpr", "CStyleCastExpr"):
            inner = node.get("inner", []) or []
            return refs(inner[0]) if inner else []
        return []
    def walk(node, parent_call_param=None):
        k = node.get("kind")
        inner = node.get("inner", []) or []
        if k == "BinaryOperator" and node.get("opcode") in ASSIGN_OPS or k == "CompoundAssignOperator":
            if inner:
                for d in refs(inner[0]): stores[d] += 1
        if k == "UnaryOperator" and node.get("opcode") in ("++", "--"):
            for d in refs(inner[0]) if inner else []: stores[d] += 1
        if k == "UnaryOperator" and node.get("opcode") == "&":
            for d in refs(inner[0]) if inner else []: escapes[d] += 1
        if k == "CallExpr":
            # arguments: arrays decaying to pointers; check the callee's parameter types when known
            callee = inner[0] if inner else {}
            ptypes = []
            qt = callee.get("type", {}).get("qualType", "")
            # function pointer type "R (*)(T1, T2)" or after decay "R (T1, T2)"
            if "(" in qt:
                args = qt[qt.rindex("(") + 1: qt.rindex(")")] if qt.rindex(")") > qt.rindex("(") else ""
                ptypes = [a.strip() for a in args.split(",")] if args else []
            for ai, arg in enumerate(inner[1:]):
                a = arg
                # ArrayToPointerDecay of a static array handed to a non-const parameter
                if a.get("kind") == "ImplicitCastExpr" and a.get("castKind") in ("ArrayToPointerDecay", "BitCast", "NoOp"):
                    base = a
                    while base.get("kind") in ("ImplicitCastExpr", "CStyleCastExpr", "ParenExpr") and base.get("inner"): base = base["inner"][0]
                    if base.get("kind") == "DeclRefExpr" and base.get("referencedDecl", {}).get("id") in statics and "[" in base.get("type", {}).get("qualType", ""):
                        pt = ptypes[ai] if ai < len(ptypes) else ""
                        if not is_const_ptr_param(pt): escapes[base["referencedDecl"]["id"]] += 1
        if k == "VarDecl" and node.get("init") and inner:
            # initialiser taking the address of another static object: counted by the '&' case above
            pass
        for ch in inner: walk(ch)
    walk(ast)
    return {statics[i][0]: (statics[i][1], stores[i], escapes[i]) for i in statics}

def nm_symbols(unit, tmp):
    obj = os.path.join(tmp, unit + ".o")
    r = subprocess.run(["gcc", "-c", "-O1", "-w"] + FEATS + ["-I", MSPACK, os.path.join(MSPACK, unit + ".c"), "-o", obj], capture_output=True)
    if r.returncode != 0: return None
    out = subprocess.run(["nm", "-S", "--defined-only", obj], capture_output=True).stdout.decode()
    syms = []
    for l in out.split("\n"):
        p = l.split()
        if len(p) == 4: addr, size, typ, name = p
        elif len(p) == 3: addr, typ, name = p; size = "0"
        else: continue
        if name.startswith(".L"): continue          # compiler-generated labels of string literals (read-only)
        if typ in "dDbBrRcCgGsS": syms.append((name.split(".")[0], typ, int(size, 16)))
    return syms

def generate():
    tmp = tempfile.mkdtemp(prefix="globals_")
    try:
        rows = []
        for u in UNITS:
            syms = nm_symbols(u, tmp); ast = analyse(u)
            if syms is None or ast is None:
                sys.stderr.write("globals_gen: cannot analyse %s\n" % u); return None
            for name, typ, size in syms:
                writable = typ in "dDbBcCgGsS"
                qt, st, esc = ast.get(name, ("?", 0, 0))
                rows.append((u, name, writable, st, esc, size))
        txt = "(* GENERATED by tools/globals_gen.py from the objects and the clang AST of %s/*.c — do not edit *)\n" % "libmspack/mspack"
        txt += "From Coq Require Import List NArith String.\nImport ListNotations.\nLocal Open Scope N_scope.\nLocal Open Scope string_scope.\n\n"
        txt += "(* (translation unit, symbol, in a writable section, stores to it in the source, times its address reaches a non-const pointer, size) *)\n"
        txt += "Definition globals : list (string * string * bool * N * N * N) := [\n"
        txt += ";\n".join('  ("%s", "%s", %s, %d, %d, %d)' % (u, n, "true" if w else "false", st, esc, sz) for (u, n, w, st, esc, sz) in sorted(rows))
        txt += "\n].\n"
        return txt
    finally:
        shutil.rmtree(tmp, ignore_errors=True)

if __name__ == "__main__":
    t = generate()
    print(t if t else "FAILED")
