"""KWAJ method 3 (LZ + Huffman) stream generator: tokens -> bit stream + plaintext, and a reference decoder written from the
format description in kwajd.c's comments (used to keep only streams whose end-of-input behaviour is unambiguous)."""
from .lzxenc import rand_lens, canon

NSYMS = [16, 16, 32, 64, 256]           # MATCHLEN1, MATCHLEN2, LITLEN, OFFSET, LITERAL
FLAT = {16: 4, 32: 5, 64: 6, 256: 8}

class BitsMSB:
    def __init__(s): s.out = bytearray(); s.acc = 0; s.n = 0; s.total = 0
    def bits(s, v, n):
        for i in range(n - 1, -1, -1):
            s.acc = (s.acc << 1) | ((v >> i) & 1); s.n += 1; s.total += 1
            if s.n == 8: s.out.append(s.acc); s.acc = 0; s.n = 0
    def done(s, padbits=0):
        if s.n: s.out.append(((s.acc << (8 - s.n)) | (padbits & ((1 << (8 - s.n)) - 1))) & 255)
        return bytes(s.out)

def write_lens(bw, rng, lens, typ):
    n = len(lens)
    if typ == 0: return
    if typ == 3:
        for l in lens: bw.bits(l, 4)
    elif typ == 1:
        c = lens[0]; bw.bits(c, 4)
        for l in lens[1:]:
            if l == c and rng.random() < 0.9: bw.bits(0, 1)
            elif l == c + 1 and rng.random() < 0.9: bw.bits(2, 2); c += 1
            else: bw.bits(3, 2); bw.bits(l, 4); c = l
    else:
        c = lens[0]; bw.bits(c, 4)
        for l in lens[1:]:
            d = l - c
            if d in (-1, 0, 1) and rng.random() < 0.9: bw.bits(d + 1, 2); c = l
            else: bw.bits(3, 2); bw.bits(l, 4); c = l

def encode(rng, ntok, final=None, padbits=None, match_p=0.5):
    """returns (stream, plaintext, info).  final: 'M' / 'R' forces the kind of the last token."""
    win = bytearray(b" " * 4096); pos = 0; out = bytearray()
    toks = []; lit_run = 0
    for k in range(ntok):
        last = (k == ntok - 1)
        kind = final if (last and final) else ("M" if rng.random() < match_p else "R")
        if kind == "M":
            ln = rng.randrange(3, 18); off = rng.choice([rng.randrange(4096), rng.randrange(1, 40), 0, 4095])
            toks.append(("M", ln, off, lit_run)); lit_run = 0
            for _ in range(ln):
                b = win[(pos + 4096 - off) & 4095]; win[pos] = b; out.append(b); pos = (pos + 1) & 4095
        else:
            n = rng.choice([1, 2, 5, 31, 32, rng.randrange(1, 33)])
            data = bytes(rng.choice(b"abc xyz\n\x00\xff") if rng.random() < 0.8 else rng.randrange(256) for _ in range(n))
            toks.append(("R", data, lit_run)); lit_run = 0 if n == 32 else 1
            for b in data: win[pos] = b; out.append(b); pos = (pos + 1) & 4095
    used = [set(), set(), set(), set(), set()]
    for t in toks:
        if t[0] == "M":
            used[1 if t[3] else 0].add(t[1] - 2); used[3].add(t[2] >> 6)
        else:
            used[1 if t[2] else 0].add(0); used[2].add(len(t[1]) - 1)
            for b in t[1]: used[4].add(b)
    lens = []; types = []
    for i, n in enumerate(NSYMS):
        r = rng.random()
        if r < 0.2: l = [FLAT[n]] * n; ty = rng.choice([0, 0, 1, 2, 3])
        else:
            extra = set(rng.sample(range(n), rng.randrange(0, min(n, 12))))
            l = rand_lens(rng, used[i] | extra, n, 12 if rng.random() < 0.8 else 15); ty = rng.choice([1, 2, 3])
        lens.append(l); types.append(ty)
    bw = BitsMSB()
    for ty in types: bw.bits(ty, 4)
    bw.bits(rng.randrange(16), 4)
    for l, ty in zip(lens, types): write_lens(bw, rng, l, ty)
    codes = [canon(l) for l in lens]
    for t in toks:
        if t[0] == "M":
            c, n = codes[1 if t[3] else 0][t[1] - 2]; bw.bits(c, n)
            c, n = codes[3][t[2] >> 6]; bw.bits(c, n); bw.bits(t[2] & 63, 6)
        else:
            c, n = codes[1 if t[2] else 0][0]; bw.bits(c, n)
            c, n = codes[2][len(t[1]) - 1]; bw.bits(c, n)
            for b in t[1]:
                c, n = codes[4][b]; bw.bits(c, n)
    pad = (8 - bw.n) % 8
    stream = bw.done(rng.randrange(256) if padbits is None else padbits)
    return stream, bytes(out), {"pad": pad, "last": toks[-1][0] if toks else "-", "types": types}

# ---------------------------------------------------------------- reference decoder (from the description in kwajd.c)
class _End(Exception): pass
class RefBits:
    def __init__(s, data): s.data = data; s.loaded = 0; s.pos = 0          # pos: bits consumed; loaded: bytes pulled (real and fake)
    def ensure(s, n):
        while 8 * s.loaded - s.pos < n: s.loaded += 1
    def bit(s, i):
        by = i >> 3
        return (s.data[by] >> (7 - (i & 7))) & 1 if by < len(s.data) else 0
    def peek(s, n):
        v = 0
        for i in range(n): v = (v << 1) | s.bit(s.pos + i)
        return v
    def ended(s): return s.loaded > len(s.data)
    def check(s):
        if s.pos > 8 * len(s.data): raise _End()           # some of the bits just used were past the end of the input
    def read(s, n):
        s.ensure(n); v = s.peek(n); s.pos += n; s.check(); return v

def build(lens, nbits=9):
    """prefix code -> {(code, len): sym}, or None where the table builder refuses the lengths.  Codes are handed out by increasing length,
    then symbol.  Lengths up to nbits that already fill the code space make the builder stop (longer codes are then ignored); lengths
    above 16 never get a code."""
    tab = {}; pos = 0; full = 1 << 16
    for l in range(1, nbits + 1):
        for sym, x in enumerate(lens):
            if x != l: continue
            if pos + (1 << (16 - l)) > full: return None
            tab[(pos >> (16 - l), l)] = sym; pos += 1 << (16 - l)
    if pos == full: return tab
    for l in range(nbits + 1, 17):
        for sym, x in enumerate(lens):
            if x != l: continue
            if pos >= full: return None
            tab[(pos >> (16 - l), l)] = sym; pos += 1 << (16 - l)
    return tab if pos == full else None

def ref_decode(data, maxout=1 << 20):
    """(status, output) with status 0 = OK, 8 = DATAFORMAT"""
    b = RefBits(data); out = bytearray(); win = bytearray(b" " * 4096); pos = 0
    def sym(tab):
        b.ensure(16); code = 0
        for n in range(1, 17):
            code = (code << 1) | b.bit(b.pos + n - 1)
            if (code, n) in tab:
                b.pos += n; b.check(); return tab[(code, n)]
        raise ValueError("no code")
    try:
        types = [b.read(4) for _ in range(6)]
        tabs = []
        for i, n in enumerate(NSYMS):
            ty = types[i]; lens = [None] * n; save = (b.pos, b.loaded)
            try:
                if ty == 0: lens = [FLAT[n]] * n
                elif ty == 1:
                    c = b.read(4); lens[0] = c
                    for k in range(1, n):
                        if b.read(1) == 0: lens[k] = c
                        elif b.read(1) == 0: c += 1; lens[k] = c & 255
                        else: c = b.read(4); lens[k] = c
                elif ty == 2:
                    c = b.read(4); lens[0] = c
                    for k in range(1, n):
                        sel = b.read(2)
                        if sel == 3: c = b.read(4)
                        else: c = (c + sel - 1) & 0xFFFFFFFF
                        lens[k] = c & 255
                elif ty == 3:
                    for k in range(n): lens[k] = b.read(4)
                else: return 8, bytes(out)
            except _End:
                return None, bytes(out)        # the input ends inside a length list: not defined by the description
            t = build(lens)
            if t is None: return 8, bytes(out)
            tabs.append(t)
        lit_run = 0
        while not b.ended():
            ln = sym(tabs[1] if lit_run else tabs[0])
            if ln > 0:
                ln += 2; lit_run = 0
                j = sym(tabs[3]); off = (j << 6) | b.read(6)
                for _ in range(ln):
                    c = win[(pos + 4096 - off) & 4095]; win[pos] = c; out.append(c); pos = (pos + 1) & 4095
            else:
                ln = sym(tabs[2]) + 1; lit_run = 0 if ln == 32 else 1
                for _ in range(ln):
                    c = sym(tabs[4]); win[pos] = c; out.append(c); pos = (pos + 1) & 4095
            if len(out) > maxout: break
    except _End:
        return 0, bytes(out)
    except ValueError:
        return 8, bytes(out)
    return 0, bytes(out)

def generate(rng, ntok, want_pad=None, final=None, tries=200):
    """a stream whose reference decoding is exactly the intended plaintext (so the end of input is unambiguous)"""
    for _ in range(tries):
        s, plain, info = encode(rng, ntok, final=final)
        if want_pad is not None and info["pad"] != want_pad: continue
        st, out = ref_decode(s)
        if st == 0 and out == plain: return s, plain, info
    return None
