"""canonical callback events from harness/sysmon.c 'cb' lines (same numeric form as coq/L2/Host.v)"""
import re
def zenc(z): return 0 if z == 0 else (2 * z if z > 0 else 2 * (-z) + 1)
def name_code(n):
    m = re.match(r"(in|out)(\d+)", n)
    if not m: return [9, 0]
    return [0 if m.group(1) == "in" else 1, int(m.group(2))]
def canon(raw_lines):
    ev = []
    for l in raw_lines:
        if not l.startswith("cb "): continue
        p = l.split()
        k = p[1]
        if k == "open":
            if p[4] == "ok": ev.append([1] + name_code(p[2]) + [int(p[3]), 1, int(p[5][1:])])
            elif p[4] == "fail": ev.append([1] + name_code(p[2]) + [int(p[3]), 0, 0])
            else: ev.append([1] + name_code(p[2]) + [int(p[3]), 0, 1])
        elif k == "close": ev.append([2, int(p[2][1:])])
        elif k == "read":
            ev.append([3, int(p[2][1:]), zenc(int(p[3])), 998 if p[4] == "fail" else int(p[5])])
        elif k == "write":
            if p[4] == "fail": ev.append([4, int(p[2][1:]), int(p[3]), 998])
            elif p[5] == "short": ev.append([4, int(p[2][1:]), int(p[3]), int(p[6])])
            else: ev.append([4, int(p[2][1:]), int(p[3]), int(p[5])])
        elif k == "seek": ev.append([5, int(p[2][1:]), int(p[3]), int(p[4]), 1 if p[5] == "ok" else 0])
        elif k == "tell": ev.append([6, int(p[2][1:]), zenc(int(p[3]))])
        elif k == "msg": ev.append([7, 0 if p[2] == "null" else int(p[2][1:]) + 1])
        elif k == "alloc":
            if p[3] == "ok": ev.append([8, zenc(int(p[2])), 1, int(p[4][1:])])
            else: ev.append([8, zenc(int(p[2])), 0, 0])
        elif k == "free": ev.append([9, 0 if p[2] == "null" else (int(p[2][1:]) + 1 if p[2] != "bad" else 99999)])
    return ev
def parse_model(line):
    st, evs, outs = line.split("|")
    ev = [[int(x) for x in e.split()] for e in evs.split(";")] if evs else []
    return [int(x) for x in st.split(",")], ev, [("" if o == "-" else o) for o in outs.split(",")]
KIND_CODE = {"open": 0, "read": 1, "write": 2, "seek": 3, "alloc": 4}
