"""Generators of well-formed archives with their expected listings / plaintexts (shared by several properties)."""
import random, struct
from . import cabfmt

METHODS = [("none",), ("mszip",), ("lzx", 15), ("lzx", 16), ("lzx", 17), ("lzx", 18), ("lzx", 21), ("qtm", 10), ("qtm", 15), ("qtm", 17), ("qtm", 21)]

def rand_folder(rng, big=False, method=None):
    m = method or rng.choice(METHODS)
    n = rng.randrange(1, 5)
    sizes = [rng.choice([0, 1, 2, 50, 700, 3000] + ([20000, 32768, 32769, 40000, 70000] if big else [])) for _ in range(n)]
    if m[0] in ("lzx", "qtm"):
        mem = [cabfmt.Member(b"m%d_%d.dat" % (i, rng.randrange(1000)), length=sizes[i], attribs=rng.choice([0x20, 1, 0x21, 0, 0x40]), date=rng.randrange(1, 65536), time=rng.randrange(65536)) for i in range(n)]
    else:
        mem = cabfmt.random_members(rng, n, lens=sizes)
    return cabfmt.Folder(m, mem)

class CabCase:
    """files: {name: bytes}; parts: [name...] in set order; members: list of (name, data, attribs, date, time) in listing order"""
    def __init__(self): self.files = {}; self.parts = []; self.members = []; self.folders = []; self.kw = {}

def time_fields(t): return (t >> 11, (t >> 5) & 0x3F, (t << 1) & 0x3E)
def date_fields(d): return ((d >> 9) + 1980, (d >> 5) & 0xF, d & 0x1F)

def cab_single(rng, big=False, nfolders=None, methods=None):
    c = CabCase()
    nf = nfolders or rng.randrange(1, 4)
    c.folders = [rand_folder(rng, big, methods[i % len(methods)] if methods else None) for i in range(nf)]
    kw = {}
    if rng.random() < 0.5:
        kw["hres"] = bytes(rng.randrange(256) for _ in range(rng.choice([0, 1, 20, 300])))
        kw["fres"] = bytes(rng.randrange(256) for _ in range(rng.choice([0, 1, 8, 255])))
        kw["dres"] = bytes(rng.randrange(256) for _ in range(rng.choice([0, 1, 4, 255])))
    kw["set_id"] = rng.randrange(65536); kw["set_index"] = rng.randrange(100)
    kw["with_ck"] = rng.random() < 0.85
    if rng.random() < 0.3: kw["gaps"] = rng.choice([(0, 9, 0), (0, 0, 13), (0, 3, 5)])     # (libmspack reads the file table right behind the folder table: no gap there)
    if rng.random() < 0.2: kw["prev"] = (b"prev.cab", b"Disk A")
    if rng.random() < 0.2: kw["nxt"] = (b"next.cab", b"")
    c.kw = kw
    cab = cabfmt.build_single(c.folders, rng, **kw)
    c.files["in0.cab"] = cab; c.parts = ["in0.cab"]
    for f in c.folders:
        for m in f.members: c.members.append(m)
    return c

def cab_set(rng, big=True):
    """a split set: 2..4 parts; cuts inside spanning folders"""
    c = CabCase()
    nf = rng.randrange(1, 4)
    c.folders = []
    for i in range(nf):
        m = rng.choice([("none",), ("mszip",), ("lzx", 16), ("qtm", 16)])
        n = rng.randrange(1, 4)
        sizes = [rng.choice([100, 5000, 33000, 40000, 70000]) for _ in range(n)]
        if m[0] in ("lzx", "qtm"): mem = [cabfmt.Member(b"s%d_%d.bin" % (i, j), length=sizes[j]) for j in range(n)]
        else: mem = cabfmt.random_members(rng, n, lens=sizes)
        c.folders.append(cabfmt.Folder(m, mem))
    for f in c.folders: f.prepare(rng)
    # choose cut points: increasing (folder, block, offset)
    pts = []
    for fi, f in enumerate(c.folders):
        for bi, (payload, ulen) in enumerate(f.blocks):
            pts.append((fi, bi, len(payload)))
    ncuts = min(len(pts), rng.randrange(1, 4))
    chosen = sorted(rng.sample(range(len(pts)), ncuts))
    cuts = []
    for idx in chosen:
        fi, bi, ln = pts[idx]
        cuts.append((fi, bi, rng.choice([0, 1, ln // 2, max(ln - 1, 0), ln])))
    # sometimes a cabinet ends exactly where a folder ends (no split block at that boundary)
    for fi in range(len(c.folders) - 1):
        if rng.random() < 0.35 and len(cuts) < 4: cuts.append((fi, "end", 0))
    cuts.sort(key=lambda t: (t[0], 1 << 30 if t[1] == "end" else t[1], t[2]))
    kw = {}
    if rng.random() < 0.5: kw["hres"] = b"h" * rng.choice([0, 3]); kw["dres"] = b"d" * rng.choice([0, 2, 9])
    kw["set_id"] = rng.randrange(65536)
    per_part = None
    if rng.random() < 0.6:    # every part of a set has its own reserve sizes
        per_part = [dict(hres=bytes(rng.randrange(256) for _ in range(rng.choice([0, 2, 40]))), fres=b"F" * rng.choice([0, 1, 6]),
                         dres=bytes(rng.randrange(256) for _ in range(rng.choice([0, 1, 4, 24])))) if rng.random() < 0.8 else dict(hres=None, fres=b"", dres=b"")
                    for _ in range(len(cuts) + 1)]
    cabs, names = cabfmt.build_set(c.folders, cuts, rng, per_part=per_part, **kw)
    for i, (cb, nm) in enumerate(zip(cabs, names)):
        c.files[nm.decode()] = cb; c.parts.append(nm.decode())
    for f in c.folders:
        for m in f.members: c.members.append(m)
    c.cuts = cuts
    return c
