"""Scenario text for harness/scn.c and a parser for its transcripts."""
import subprocess, re, os
import vlib

class Scn:
    def __init__(self): self.lines = []
    def file(self, name, data): self.lines.append("file %s %s" % (name, bytes(data).hex() if len(data) else "-")); return self
    def fill(self, b): self.lines.append("fill %d" % b); return self
    def fault(self, kind, idx, mode=None): self.lines.append("fault %s %d%s" % (kind, idx, " " + mode if mode else "")); return self
    def trace(self, on=1): self.lines.append("trace %d" % on); return self
    def hexout(self, on): self.lines.append("hexout %d" % on); return self
    def op(self, *toks): self.lines.append(" ".join(str(t) for t in toks)); return self
    def text(self): return "\n".join(self.lines) + "\nend\n"
    def copy(self):
        s = Scn(); s.lines = list(self.lines); return s
    def with_prefix(self, *pre):
        s = Scn(); s.lines = list(pre) + list(self.lines); return s

class OpRes:
    def __init__(self, no, name): self.no, self.name = no, name; self.kv = {}; self.lines = []; self.out = None; self.outlen = None; self.outname = None; self.vars = (); self.work = {}; self.declared = None; self.written = None
    def __repr__(self): return "<op %d %s %s>" % (self.no, self.name, self.kv)

class Transcript:
    def __init__(self): self.ops = []; self.ledger = {}; self.viol = []; self.calls = {}; self.raw = []; self.hang = False; self.crash = None; self.complete = False
    def l1(self):
        """canonical L1 view: per op (name, status/ok, err, listing lines, output)"""
        return [(o.name, o.kv.get("st"), o.kv.get("ok"), o.kv.get("err"), tuple(o.lines), o.out, o.outlen) for o in self.ops]

def parse(block_lines):
    t = Transcript(); cur = None; curvars = ()
    for l in block_lines:
        t.raw.append(l)
        if l.startswith("op "):
            p = l.split(); cur = OpRes(int(p[1]), p[2]); cur.vars = curvars; t.ops.append(cur)
            for tok in p[3:]:
                if "=" in tok: k, v = tok.split("=", 1); cur.kv[k] = v
                else: cur.kv[tok] = "1"
        elif l.startswith("out ") and cur is not None:
            m = re.match(r"out (\S+) len=(\d+) (hex|fnv)=(\S*)", l)
            if m: cur.outlen = int(m.group(2)); cur.out = m.group(4); cur.outname = m.group(1)
            else: cur.out = "absent"; cur.outname = l.split()[1] if len(l.split()) > 1 else None
        elif l.startswith("declared ") and cur is not None:
            p = l.split(); cur.declared = int(p[1]); cur.written = int(p[3])
        elif l.startswith("work ") and cur is not None:
            for tok in l.split()[1:]:
                k, v = tok.split("=", 1); cur.work[k] = int(v)
        elif l.startswith("ledger "):
            for tok in l.split()[1:]:
                k, v = tok.split("=", 1); t.ledger[k] = int(v)
        elif l.startswith("viol "): t.viol.append(l[5:])
        elif l.startswith("calls"):
            for tok in l.split()[1:]:
                k, v = tok.split("=", 1); t.calls[k] = int(v)
        elif l.startswith("vars"): curvars = tuple(l.split()[1:])
        elif l.startswith("HANG"): t.hang = True
        elif l.startswith("END "): t.complete = True
        elif l.startswith("cb "): pass
        elif cur is not None: cur.lines.append(l)
    return t

def run_scenarios(exe, scns, timeout_each=20, chunk=200):
    """run scenarios through `impl_drv scn`; returns list of Transcript (one per scenario).  A crash/sanitizer report or hang ends the
    process: the transcript of that scenario records it and the remaining scenarios are re-run in a new process."""
    results = [None] * len(scns); i = 0
    while i < len(scns):
        batch = scns[i:i + chunk]
        inp = "".join(s.text() if isinstance(s, Scn) else s for s in batch).encode()
        try:
            p = subprocess.run([exe, "scn", str(timeout_each)], input=inp, capture_output=True, timeout=timeout_each * len(batch) + 60, env=vlib.ASAN_ENV)
            out, err, rc = p.stdout.decode("utf-8", "replace"), p.stderr.decode("utf-8", "replace"), p.returncode
        except subprocess.TimeoutExpired as e:
            out, err, rc = (e.stdout or b"").decode("utf-8", "replace"), "[outer timeout]", 124
        blocks = re.split(r"^BEGIN \d+\n", out, flags=re.M)[1:]
        done = 0
        for b in blocks:
            if i + done >= len(scns): break
            t = parse(b.split("\n"))
            if t.complete: results[i + done] = t; done += 1
            else:
                # the process stopped inside this scenario
                t.crash = None if t.hang else ("rc=%d %s" % (rc, err[-3000:]))
                if not t.hang and rc == 0 and done == len(blocks) - 1 and not b.strip(): break   # trailing empty BEGIN
                results[i + done] = t; done += 1
                break
        if done == 0:
            t = Transcript(); t.crash = "rc=%d no output %s" % (rc, err[-2000:]); results[i] = t; done = 1
        i += done
    return results
