"""SZDD / KWAJ builders"""
import struct, zlib

def szdd(kind, length, payload, missing=0x5f, fmt_byte=0x41):
    if kind == 0: return b"SZDD\x88\xf0\x27\x33" + bytes([fmt_byte, missing]) + struct.pack("<I", length) + payload
    return b"SZ \x88\xf0\x27\x33\xd1" + struct.pack("<I", length) + payload

def kwaj(comp, payload, flags=0, length=0, unk1=b"\0\0", unk2=b"", name=b"", ext=b"", extra=b"", pad=b""):
    opt = b""
    if flags & 1: opt += struct.pack("<I", length)
    if flags & 2: opt += unk1[:2].ljust(2, b"\0")
    if flags & 4: opt += struct.pack("<H", len(unk2)) + unk2
    if flags & 8: opt += name + b"\0"
    if flags & 16: opt += ext + b"\0"
    if flags & 32: opt += struct.pack("<H", len(extra)) + extra
    off = 14 + len(opt) + len(pad)
    return b"KWAJ\x88\xf0\x27\xd1" + struct.pack("<HHH", comp, off, flags) + opt + pad + payload

def kwaj_mszip(data, rng, block=32768):
    out = b""; i = 0
    while i < len(data):
        chunk = data[i:i + block]
        hist = data[max(0, i - 32768):i] if block == 32768 else b""   # the decoder restarts at window position 0 per block: history is linear only for full 32 KiB blocks
        co = zlib.compressobj(rng.choice([0, 1, 6, 9]), zlib.DEFLATED, -15, 9, zlib.Z_DEFAULT_STRATEGY, hist) if hist else zlib.compressobj(rng.choice([0, 1, 6, 9]), zlib.DEFLATED, -15)
        body = b"CK" + co.compress(chunk) + co.flush()
        out += struct.pack("<H", len(body)) + body; i += len(chunk)
    return out + b"\0\0"
