"""Scenario corpus shared by the robustness properties (C02, C04, C07, C09, C10, C11, C20):
repo test files, generated well-formed archives of all five formats, and damaged variants; plus fault-plan expansion."""
import zlib, os, glob, random, struct
import vlib
from vlib import scenario, gen, cabfmt, chmfmt, kwajfmt, oabfmt, qtmenc, lzxenc

REPO_CAB = os.path.join(vlib.REPO, "libmspack", "test", "test_files", "cabd")
REPO_CHM = os.path.join(vlib.REPO, "libmspack", "test", "test_files", "chmd")
REPO_KWAJ = os.path.join(vlib.REPO, "libmspack", "test", "test_files", "kwajd")
REPO_CABX = os.path.join(vlib.REPO, "cabextract", "test", "cabs")

class Case:
    def __init__(self, label, fmt, scn, wellformed=False, expect=None, all_faults=False):
        self.label, self.fmt, self.scn, self.wellformed, self.expect = label, fmt, scn, wellformed, expect
        self.all_faults = all_faults          # fault sweep: every call index of the clean run, not a sample

def py_lzss(rng, n, mode):
    """simple LZSS stream (literals and matches) + its plaintext, python reference"""
    win = bytearray(b" " * 4096); pos = 4096 - (18 if mode == 2 else 16); out = bytearray(); stream = bytearray()
    items = []
    for _ in range(n):
        if rng.random() < 0.5: items.append(("L", rng.randrange(256)))
        else: items.append(("M", rng.randrange(4096), rng.randrange(3, 19)))
    for g in range(0, len(items), 8):
        grp = items[g:g + 8]; ctrl = 0; body = bytearray()
        for i, it in enumerate(grp):
            if it[0] == "L":
                ctrl |= 1 << i; body.append(it[1]); win[pos] = it[1]; out.append(it[1]); pos = (pos + 1) & 4095
            else:
                _, mp, ln = it; body.append(mp & 255); body.append(((mp >> 8) << 4) | (ln - 3))
                for _k in range(ln):
                    b = win[mp]; win[pos] = b; out.append(b); pos = (pos + 1) & 4095; mp = (mp + 1) & 4095
        stream.append(ctrl ^ (0xFF if mode == 1 else 0)); stream += body
    return bytes(stream), bytes(out)

def cab_ops(sc, nparts=1, maxfiles=40, search=False):
    sc.op("cab_new")
    if search:
        sc.op("cab_search", "c0", "in0.cab"); sc.op("cab_extract_all", "c0", "out", maxfiles)
    else:
        for k in range(nparts): sc.op("cab_open", "c%d" % k, "in%d.cab" % k)
        for k in range(1, nparts): sc.op("cab_append", "c%d" % (k - 1), "c%d" % k)
        sc.op("cab_extract_all", "c0", "out", maxfiles)
        sc.op("cab_extract_seq", "c0", "outs", len(sc.lines) * 7 + nparts, 8)   # same / next / previous / random member: re-initialisation, reuse, repeats
    sc.op("cab_close", "c0")
    return sc

def fmt_ops(fmt, sc, maxfiles=40):
    if fmt == "chm":
        sc.op("chm_new").op("chm_open", "h0", "in0.chm").op("chm_extract_all", "h0", "out", maxfiles).op("chm_find_all", "h0", 6).op("chm_close", "h0")
        sc.op("chm_fast_open", "h1", "in0.chm").op("chm_find", "h1", b"/index.html".hex(), "outf").op("chm_find", "h1", b"::DataSpace/Storage/MSCompressed/Content".hex()).op("chm_close", "h1")
    elif fmt == "szdd":
        sc.op("szdd_new").op("szdd_open", "h0", "in0.sz").op("szdd_extract", "h0", "out0").op("szdd_close", "h0").op("szdd_decompress", "in0.sz", "out1")
    elif fmt == "kwaj":
        sc.op("kwaj_new").op("kwaj_open", "h0", "in0.kwj").op("kwaj_extract", "h0", "out0").op("kwaj_close", "h0").op("kwaj_decompress", "in0.kwj", "out1")
    elif fmt == "oab":
        sc.op("oab_new").op("oab_decompress", "in0.oab", "out0")
    elif fmt == "oabp":
        sc.op("oab_new").op("oab_incr", "in0.pat", "in0.base", "out0")
    return sc

def damage(rng, data, hdrspan=64):
    b = bytearray(data)
    if not b: return bytes([rng.randrange(256)])
    k = rng.random()
    if k < 0.35:
        for _ in range(rng.choice([1, 1, 2, 4])): b[rng.randrange(min(len(b), hdrspan))] = rng.choice([0, 1, 0x7f, 0x80, 0xff, rng.randrange(256)])
    elif k < 0.6:
        for _ in range(rng.choice([1, 2, 8])): b[rng.randrange(len(b))] ^= 1 << rng.randrange(8)
    elif k < 0.8: b = b[:rng.randrange(len(b))]
    elif k < 0.9:
        i = rng.randrange(len(b)); b[i:i + 4] = struct.pack("<I", rng.choice([0, 0xFFFFFFFF, 0x7FFFFFFF, 0x80000000, 65535, 65536]))[: len(b[i:i + 4])]
    else:
        i = rng.randrange(len(b)); b[i:i] = bytes(rng.randrange(256) for _ in range(rng.randrange(1, 20)))
    return bytes(b)

def repo_cases(maxfiles=12):
    out = []
    for f in sorted(glob.glob(os.path.join(REPO_CAB, "*.cab")) + glob.glob(os.path.join(REPO_CABX, "*.cab"))):
        base = os.path.basename(f)
        if base.startswith("multi_basic_pt") or base.startswith("split-") or base.startswith("large-"): continue
        data = open(f, "rb").read()
        if len(data) > 400000: continue
        sc = scenario.Scn().file("in0.cab", data); cab_ops(sc, 1, maxfiles, search=base.startswith("search"))
        out.append(Case("repo:" + base, "cab", sc))
    for pat, n in (("multi_basic_pt%d.cab", 5),):
        sc = scenario.Scn()
        for i in range(n): sc.file("in%d.cab" % i, open(os.path.join(REPO_CAB, pat % (i + 1)), "rb").read())
        cab_ops(sc, n, maxfiles); out.append(Case("repo:multi_basic", "cab", sc))
    sc = scenario.Scn()
    for i in range(5): sc.file("in%d.cab" % i, open(os.path.join(REPO_CABX, "split-%d.cab" % (i + 1)), "rb").read())
    cab_ops(sc, 5, maxfiles); out.append(Case("repo:split", "cab", sc))
    for f in sorted(glob.glob(os.path.join(REPO_CHM, "*.chm"))):
        sc = scenario.Scn().file("in0.chm", open(f, "rb").read()); fmt_ops("chm", sc, max(maxfiles, 80)); out.append(Case("repo:" + os.path.basename(f), "chm", sc))
    for f in sorted(glob.glob(os.path.join(REPO_KWAJ, "*.kwj"))):
        sc = scenario.Scn().file("in0.kwj", open(f, "rb").read()); fmt_ops("kwaj", sc); out.append(Case("repo:" + os.path.basename(f), "kwaj", sc))
    return out

def generated_cases(rng, n):
    """n well-formed cases per format family"""
    out = []
    for i in range(n):
        c = gen.cab_single(rng, big=(i % 4 == 0))
        sc = scenario.Scn().file("in0.cab", c.files["in0.cab"]); cab_ops(sc, 1)
        out.append(Case("gen:cab-single", "cab", sc, True, [m.data for m in c.members]))
    for i in range(max(1, n // 2)):
        c = gen.cab_set(rng)
        sc = scenario.Scn()
        for k, nm in enumerate(c.parts): sc.file("in%d.cab" % k, c.files[nm])
        cab_ops(sc, len(c.parts)); out.append(Case("gen:cab-set", "cab", sc, True, [m.data for m in c.members]))
    for i in range(max(1, n // 2)):
        # joins that must be refused: circular, repeated, self, null (after the set has been joined correctly)
        c = gen.cab_set(rng); np_ = len(c.parts)
        sc = scenario.Scn()
        for k, nm in enumerate(c.parts): sc.file("in%d.cab" % k, c.files[nm])
        sc.op("cab_new")
        for k in range(np_): sc.op("cab_open", "c%d" % k, "in%d.cab" % k)
        for k in range(1, np_): sc.op("cab_append", "c%d" % (k - 1), "c%d" % k)
        bad = [("cab_append", "c%d" % (np_ - 1), "c0"), ("cab_prepend", "c0", "c%d" % (np_ - 1)), ("cab_append", "c0", "c0"), ("cab_append", "c0", "null"),
               ("cab_append", "c0", "c1"), ("cab_prepend", "c1", "c0")]
        rng.shuffle(bad)
        for b in bad[:4]: sc.op(*b)
        sc.op("cab_list", "c0").op("cab_extract_all", "c0", "out", 6).op("cab_close", "c0")
        out.append(Case("gen:cab-set-badjoin", "cab", sc))
    for i in range(max(1, n // 2)):
        # an incomplete set: only some parts are opened (split blocks without their continuation, files needing a predecessor)
        c = gen.cab_set(rng)
        keep = sorted(rng.sample(range(len(c.parts)), rng.randrange(1, len(c.parts))))
        sc = scenario.Scn()
        for k, j in enumerate(keep): sc.file("in%d.cab" % k, c.files[c.parts[j]])
        sc.op("cab_new")
        for k in range(len(keep)): sc.op("cab_open", "c%d" % k, "in%d.cab" % k)
        for k in range(1, len(keep)): sc.op("cab_append", "c%d" % (k - 1), "c%d" % k)
        for k in range(len(keep)): sc.op("cab_extract_all", "c%d" % k, "out%d_" % k, 12)
        out.append(Case("gen:cab-set-partial", "cab", sc))
    for i in range(n):
        f0 = [(b"/index.html", b"<html>hi</html>"), (b"/e", b"")] + [(b"/d%02d.txt" % j, bytes([65 + j % 26]) * rng.randrange(0, 300)) for j in range(rng.choice([0, 3, 40]))]
        f1 = [(b"/c%d.bin" % j, rng.choice([0, 5, 2000, 40000, 70000])) for j in range(rng.randrange(0, 4))]
        try:
            chm, exp = chmfmt.build(f0, f1, rng, chunk_size=rng.choice([256, 512, 4096]), density=rng.choice([0, 1, 2, 4]), wbits=rng.choice([15, 16, 17]),
                                    reset_frames=rng.choice([1, 2, 4]), version=rng.choice([2, 3]), rt_entry_size=rng.choice([8, 4]), with_rtable=rng.random() < 0.8,
                                    content_last=rng.random() < 0.7)
        except ValueError:
            continue
        sc = scenario.Scn().file("in0.chm", chm); fmt_ops("chm", sc); out.append(Case("gen:chm", "chm", sc, True, exp))
    for i in range(n):
        kind = i % 2; enc, plain = py_lzss(rng, rng.choice([0, 3, 50, 400]), 0 if kind == 0 else 2)
        sc = scenario.Scn().file("in0.sz", kwajfmt.szdd(kind, len(plain), enc)); fmt_ops("szdd", sc); out.append(Case("gen:szdd", "szdd", sc, True, plain))
    for i in range(n):
        comp = [3, 0, 2, 4, 1, 3][i % 6]; plain = bytes(rng.choice(b"xyz \n\x00\xff") for _ in range(rng.choice([0, 7, 900, 40000])))
        if comp == 3:
            from vlib import lzhenc
            r = lzhenc.generate(rng, rng.choice([40, 400, 1500])) or lzhenc.generate(rng, 4)
            payload, plain = r[0], r[1]
        elif comp == 0: payload = plain
        elif comp == 1: payload = bytes(b ^ 0xFF for b in plain)
        elif comp == 2: payload, plain = py_lzss(rng, rng.choice([0, 9, 200]), 2)
        else: payload = kwajfmt.kwaj_mszip(plain, rng)
        fl = rng.randrange(64)
        f = kwajfmt.kwaj(comp, payload, fl, len(plain), b"ab", bytes(rng.randrange(3)), b"NAME", b"EX", b"extra text")
        sc = scenario.Scn().file("in0.kwj", f); fmt_ops("kwaj", sc); out.append(Case("gen:kwaj", "kwaj", sc, True, plain, all_faults=(comp == 3 and len(f) < 9000)))
    for i in range(n):
        if i % 2 == 0:
            oab, plain = oabfmt.build_full(rng, [rng.choice([0, 1, 300, 40000]) for _ in range(rng.randrange(1, 4))])
            sc = scenario.Scn().file("in0.oab", oab); fmt_ops("oab", sc); out.append(Case("gen:oab", "oab", sc, True, plain))
        else:
            pt, base, plain = oabfmt.build_patch(rng, [(rng.choice([0, 100, 40000]), rng.choice([1, 500, 40000])) for _ in range(rng.randrange(1, 3))])
            sc = scenario.Scn().file("in0.pat", pt).file("in0.base", base); fmt_ops("oabp", sc); out.append(Case("gen:oabp", "oabp", sc, True, plain))
    return out

def damaged_cases(rng, base_cases, per):
    out = []
    for c in base_cases:
        files = [l for l in c.scn.lines if l.startswith("file ")]
        if not files: continue
        for _ in range(per):
            sc = c.scn.copy(); j = rng.randrange(len(files)); idx = sc.lines.index(files[j])
            _, name, hx = files[j].split(" ", 2)
            data = bytes.fromhex(hx) if hx != "-" else b""
            d = damage(rng, data, hdrspan=rng.choice([16, 64, 256]))
            sc.lines[idx] = "file %s %s" % (name, d.hex() if d else "-")
            out.append(Case("dmg:" + c.label, c.fmt, sc))
    return out

FAULT_KINDS = ["open", "read", "write", "seek", "alloc"]
def fault_variants(rng, case, clean, per_kind=None):
    """all single faults of the clean run (or a sample of per_kind per kind): returns list of (kind, idx, mode, Scn)"""
    out = []
    for kind in FAULT_KINDS:
        n = clean.calls.get(kind, 0)
        idxs = list(range(n))
        if getattr(case, "all_faults", False): idxs = idxs[:60]
        elif per_kind is not None and n > per_kind: idxs = sorted(rng.sample(idxs, per_kind))
        for i in idxs:
            modes = ["err", "short"] if kind == "write" else ["err"]
            for m in modes:
                sc = case.scn.with_prefix("fault %s %d %s" % (kind, i, m))
                out.append((kind, i, m, sc))
    return out

def hostile_cases(rng, n):
    """inputs aimed at the guards the memory-safety proofs and the sanitizer sweep care about (not well-formed)"""
    out = []
    for i in range(n):
        # (1) CHM with wild directory-header fields
        f0 = [(b"/index.html", b"<html>hi</html>")] + [(b"/d%02d.txt" % j, b"x" * j) for j in range(rng.choice([2, 30]))]
        try:
            chm, exp = chmfmt.build(f0, [(b"/c.bin", 3000)], rng, chunk_size=rng.choice([256, 4096]), density=2)
        except ValueError:
            continue
        b = bytearray(chm); hs1 = 0x38 + 0x28 + 0x18
        field = rng.choice([0x10, 0x14, 0x14, 0x18, 0x1C, 0x20, 0x24, 0x2C])
        val = rng.choice([0, 1, 21, 22, 31, 32, 33, 40, 255, 8192, 8193, 100000, 100001, 0x7FFFFFFF, 0x80000000, 0xFFFFFFFF])
        struct.pack_into("<I", b, hs1 + field, val)
        sc = scenario.Scn().file("in0.chm", bytes(b)); fmt_ops("chm", sc, 6); out.append(Case("hostile:chm-hdr", "chm", sc))
    for i in range(2 * n):
        # (1b) a member declared one byte (or a few) longer than its folder's data: the decoder runs out exactly at the end of the request
        meth = [("lzx", rng.choice([15, 16, 18])), ("mszip",), ("qtm", rng.choice([15, 17])), ("none",)][i % 4] if i < 8 else rng.choice([("none",), ("mszip",), ("lzx", rng.choice([15, 16, 18])), ("qtm", rng.choice([15, 17]))])
        c = gen.cab_single(rng, nfolders=1, methods=[meth])
        cab = bytearray(list(c.files.values())[0]); nfiles = struct.unpack_from("<H", cab, 28)[0]; foff = struct.unpack_from("<I", cab, 16)[0]
        # walk the file table to the last entry and bump its length
        p = foff
        for k in range(nfiles):
            last = p; p += 16
            while cab[p]: p += 1
            p += 1
        ln = struct.unpack_from("<I", cab, last)[0]; struct.pack_into("<I", cab, last, ln + (1 if i < 8 else rng.choice([1, 1, 2, 7])))
        sc = scenario.Scn().file("in0.cab", bytes(cab)).op("cab_new").op("cab_param", 2, rng.choice([4, 4096, 65536])).op("cab_open", "c0", "in0.cab").op("cab_extract_all", "c0", "out", 8).op("cab_close", "c0")
        out.append(Case("hostile:cab-member-plus", "cab", sc))
    for i in range(n):
        # (2) cabinet whose block sizes sit at the limits, strict and salvage
        csz = rng.choice([32768, 38912, 38913, 65535, 40000]); usz = rng.choice([32768, 32769, 65535, 1])
        payload = bytes(rng.randrange(256) for _ in range(csz))
        parts = [(payload, usz)] if rng.random() < 0.6 else [(payload[:csz // 2], 0), (payload[csz // 2:], usz), (payload[:30000], usz)]
        ct = rng.choice([0, 1, 2 | (15 << 8), 3 | (16 << 8)])
        cab = cabfmt.build_cab([(ct, parts)], [(b"a.bin", min(usz, 32768), 0, 0, 0x5A21, 0x6C43, 0x20)], with_ck=rng.random() < 0.5)
        sc = scenario.Scn().file("in0.cab", cab).op("cab_new").op("cab_param", 3, rng.choice([0, 1])).op("cab_param", 2, rng.choice([4, 4096]))
        sc.op("cab_open", "c0", "in0.cab").op("cab_extract_all", "c0", "out", 4).op("cab_close", "c0")
        out.append(Case("hostile:cab-blocksize", "cab", sc))
    for i in range(n):
        # (3) salvage mode, file table with entries that are skipped (bad folder index, empty / unterminated names) before continued entries, then a join
        c = gen.cab_set(rng)
        def hook(ci, files):
            bad = []
            for _ in range(rng.randrange(1, 3)):
                kind = rng.random()
                if kind < 0.5: bad.append((b"", 10, 0, rng.choice([0xFFFE, 0xFFFD, 0xFFFF]), 1, 1, 0x20))      # empty name: rejected after the entry was linked
                else: bad.append((b"x.bin", 10, 0, rng.choice([500, 0xFFFC]), 1, 1, 0x20))                     # bad folder index
            pos = rng.randrange(0, len(files) + 1)
            return files[:pos] + bad + files[pos:]
        for f in c.folders: f.blocks = f.blocks
        cabs, names = cabfmt.build_set(c.folders, c.cuts, rng, files_hook=hook)
        sc = scenario.Scn()
        for k, cb in enumerate(cabs): sc.file("in%d.cab" % k, cb)
        sc.op("cab_new").op("cab_param", 3, 1)
        for k in range(len(cabs)): sc.op("cab_open", "c%d" % k, "in%d.cab" % k)
        order = list(range(1, len(cabs)))
        for k in order: sc.op("cab_append", "c%d" % (k - 1), "c%d" % k)
        sc.op("cab_extract_all", "c0", "out", 6).op("cab_close", "c0")
        out.append(Case("hostile:cab-salvage-skip", "cab", sc))
    return out

def refusal_cases(rng, n):
    """joins that are refused after the argument checks (split folders that do not belong together; the one allocation of the
    merge failing), after which the caller - who still owns both cabinets - closes each of them"""
    out = []
    for i in range(n):
        a = gen.cab_set(rng); b = gen.cab_set(rng)
        sc = scenario.Scn().file("in0.cab", a.files[a.parts[0]]).file("in1.cab", (b if i % 2 == 0 else a).files[(b if i % 2 == 0 else a).parts[-1 if i % 2 == 0 else 1]])
        sc.op("cab_new").op("cab_open", "c0", "in0.cab").op("cab_open", "c1", "in1.cab")
        sc.op("cab_append" if i % 4 < 2 else "cab_prepend", *(("c0", "c1") if i % 4 < 2 else ("c1", "c0")))
        sc.op("cab_list", "c0").op("cab_list", "c1").op("cab_close", "c1").op("cab_close", "c0")
        out.append(Case("hostile:cab-refused-join" if i % 2 == 0 else "gen:cab-join-faults", "cab", sc, all_faults=True))
    return out

class BitsLSB:
    def __init__(s): s.out = bytearray(); s.acc = 0; s.n = 0
    def bits(s, v, n):
        for i in range(n):
            s.acc |= ((v >> i) & 1) << s.n; s.n += 1
            if s.n == 8: s.out.append(s.acc); s.acc = 0; s.n = 0
    def huff(s, code, n):       # Huffman codes are sent most significant bit first
        for i in range(n - 1, -1, -1): s.bits((code >> i) & 1, 1)
    def done(s):
        if s.n: s.out.append(s.acc)
        return bytes(s.out)
def fixed_deflate(tokens):
    """one fixed-Huffman deflate block; tokens: ('L', byte) | ('M', length 3..10, distance 1..4)"""
    b = BitsLSB(); b.bits(1, 1); b.bits(1, 2)
    for t in tokens:
        if t[0] == "L":
            v = t[1]
            if v < 144: b.huff(0x30 + v, 8)
            else: b.huff(0x190 + v - 144, 9)
        else:
            _, ln, dist = t
            b.huff(ln - 2, 7)           # length codes 257..264 = lengths 3..10, 7-bit codes 0000001..
            b.huff(dist - 1, 5)         # distance codes 0..3 = distances 1..4
    b.huff(0, 7)
    return b.done()

_LBASE = [3,4,5,6,7,8,9,10,11,13,15,17,19,23,27,31,35,43,51,59,67,83,99,115,131,163,195,227,258]
_LEXTRA = [0,0,0,0,0,0,0,0,1,1,1,1,2,2,2,2,3,3,3,3,4,4,4,4,5,5,5,5,0]
_DBASE = [1,2,3,4,5,7,9,13,17,25,33,49,65,97,129,193,257,385,513,769,1025,1537,2049,3073,4097,6145,8193,12289,16385,24577]
_DEXTRA = [0,0,0,0,1,1,2,2,3,3,4,4,5,5,6,6,7,7,8,8,9,9,10,10,11,11,12,12,13,13]
def fixed_deflate_any(tokens):
    """one fixed-Huffman deflate block; tokens: ('L', byte) | ('M', length 3..258, distance 1..32768)"""
    b = BitsLSB(); b.bits(1, 1); b.bits(1, 2)
    for t in tokens:
        if t[0] == "L":
            v = t[1]
            if v < 144: b.huff(0x30 + v, 8)
            else: b.huff(0x190 + v - 144, 9)
        else:
            _, ln, dist = t
            li = max(i for i in range(29) if _LBASE[i] <= ln and (i < 28 or ln == 258))
            if ln == 258: li = 28
            sym = 257 + li
            if sym < 280: b.huff(sym - 256, 7)
            else: b.huff(0xC0 + sym - 280, 8)
            if _LEXTRA[li]: b.bits(ln - _LBASE[li], _LEXTRA[li])
            di = max(i for i in range(30) if _DBASE[i] <= dist)
            b.huff(di, 5)
            if _DEXTRA[di]: b.bits(dist - _DBASE[di], _DEXTRA[di])
    b.huff(0, 7)
    return b.done()

class BitsMSB:
    def __init__(s): s.out = bytearray(); s.acc = 0; s.n = 0
    def bits(s, v, n):
        for i in range(n - 1, -1, -1):
            s.acc = (s.acc << 1) | ((v >> i) & 1); s.n += 1
            if s.n == 8: s.out.append(s.acc); s.acc = 0; s.n = 0
    def done(s):
        if s.n: s.out.append(s.acc << (8 - s.n))
        return bytes(s.out)

def uninit_cases(rng, n):
    """inputs whose decoding would read memory the decoder never wrote (C11): matches reaching before the start of the stream
    (MSZIP in CAB and KWAJ, Quantum), KWAJ LZH length lists of an undefined type"""
    out = []
    for i in range(n):
        toks = []
        for _ in range(rng.randrange(1, 6)):
            toks.append(("M", rng.randrange(3, 11), rng.randrange(1, 5)) if rng.random() < 0.6 or not toks else ("L", rng.randrange(256)))
        if toks[0][0] != "M": toks.insert(0, ("M", 3, rng.randrange(1, 5)))
        ulen = sum(1 if t[0] == "L" else t[1] for t in toks)
        z = b"CK" + fixed_deflate(toks)
        cab = cabfmt.build_cab([(1, [(z, ulen)])], [(b"leak.bin", ulen, 0, 0, 0x5A21, 0x6C43, 0x20)])
        sc = scenario.Scn().file("in0.cab", cab); cab_ops(sc, 1, 4); out.append(Case("uninit:mszip-early-match", "cab", sc))
        import struct
        kw = kwajfmt.kwaj(4, struct.pack("<H", len(z)) + z + b"\0\0", 1, ulen)
        sc = scenario.Scn().file("in0.kwj", kw); fmt_ops("kwaj", sc); out.append(Case("uninit:kwaj-mszip-early-match", "kwaj", sc))
        # the same matches at the start of a SECOND frame, after a first frame much shorter than the 32K of history they reach into
        first = [("L", 65 + (i + j) % 26) for j in range(1 + i % 9)]
        z1 = b"CK" + (fixed_deflate(first) if i % 2 else bytes([1]) + struct.pack("<HH", len(first), len(first) ^ 0xFFFF) + bytes(t[1] for t in first))
        cab = cabfmt.build_cab([(1, [(z1, len(first)), (z, ulen)])], [(b"leak2.bin", len(first) + ulen, 0, 0, 0x5A21, 0x6C43, 0x20)])
        sc = scenario.Scn().file("in0.cab", cab); cab_ops(sc, 1, 4); out.append(Case("uninit:mszip-short-frame-then-far-match", "cab", sc))
        kw = kwajfmt.kwaj(4, struct.pack("<H", len(z1)) + z1 + struct.pack("<H", len(z)) + z + b"\0\0", 1, len(first) + ulen)
        sc = scenario.Scn().file("in0.kwj", kw); fmt_ops("kwaj", sc); out.append(Case("uninit:kwaj-mszip-short-frame-then-far-match", "kwaj", sc))
    # KWAJ headers that end inside the optional file name / extension string (2..8 resp. 1..3 bytes, none of them NUL): what open()
    # reports must not depend on the unwritten rest of the buffer the string is read into  (the same on every run)
    for flags, name, ext in ((0x08, b"ABCDEFGH", b""), (0x10, b"", b"XYZ"), (0x18, b"AB", b"XYZ"), (0x09, b"ABCDEFGH", b"")):
        whole = kwajfmt.kwaj(0, b"", flags, 0, name=name, ext=ext)
        first = 14 + (4 if flags & 1 else 0) + (len(name) + 1 if (flags & 0x18) == 0x18 else 0)
        for cut in range(first + 1, len(whole)):
            sc = scenario.Scn().file("in0.kwj", whole[:cut]); fmt_ops("kwaj", sc); out.append(Case("uninit:kwaj-header-ends-in-name", "kwaj", sc))
    for i in range(n):
        # LZSS: the very first tokens copy from ring positions at and beyond the initial write position (never written by the decoder)
        kind = i % 3; mode = [0, 2, 2][kind]; start = 4096 - (18 if mode == 2 else 16)
        body = bytearray(); ctrl = 0; k = 0
        for _ in range(rng.randrange(1, 5)):
            mp = rng.randrange(start, 4096); ln = rng.randrange(3, 19)
            body.append(mp & 255); body.append(((mp >> 8) << 4) | (ln - 3)); k += 1
        stream = bytes([0]) + bytes(body)          # control byte 0: all (up to 8) items are matches
        if kind == 0: f = kwajfmt.szdd(0, 0, stream); nm = "in0.sz"; fmt = "szdd"
        elif kind == 1: f = kwajfmt.szdd(1, 0, stream); nm = "in0.sz"; fmt = "szdd"
        else: f = kwajfmt.kwaj(2, stream, 0); nm = "in0.kwj"; fmt = "kwaj"
        sc = scenario.Scn().file(nm, f); fmt_ops(fmt, sc); out.append(Case("uninit:lzss-ahead-of-cursor", fmt, sc))
    for i in range(n):
        wb = rng.choice([10, 12, 15]); total = rng.choice([50, 3000])
        frames = []; stream, _ = qtmenc.encode(rng, wb, total, frames=frames, early=True)
        cab = cabfmt.build_cab([(2 | (wb << 8), [(f, min(32768, total - 32768 * k)) for k, f in enumerate(frames)])], [(b"q.bin", total, 0, 0, 0x5A21, 0x6C43, 0x20)])
        sc = scenario.Scn().file("in0.cab", cab); cab_ops(sc, 1, 4); out.append(Case("uninit:qtm-early-match", "cab", sc))
    for i in range(n):
        # LZX: among the first tokens a match whose offset exceeds the bytes decoded so far (the window is not cleared by lzxd_init)
        wb = rng.choice([15, 16, 17]); total = rng.choice([40, 600])
        for _ in range(20):
            stream, _ = lzxenc.encode(rng, wb, total, early=True, match_p=0.9)
            if len(stream) < 30000: break
        cab = cabfmt.build_cab([(3 | (wb << 8), [(stream, total)])], [(b"x.bin", total, 0, 0, 0x5A21, 0x6C43, 0x20)])
        sc = scenario.Scn().file("in0.cab", cab); cab_ops(sc, 1, 4); out.append(Case("uninit:lzx-early-match", "cab", sc))
    for i in range(n):
        # LZX, second frame: a match reaching beyond everything decoded so far, into window cells no frame has written (window >= 64 KiB, not yet wrapped)
        wb = rng.choice([16, 17, 18]); total = 32768 + rng.choice([300, 2000])
        for _ in range(20):
            cuts = []; stream, _ = lzxenc.encode(rng, wb, total, early=2, match_p=0.9, cuts=cuts)
            if len(stream) < 60000 and cuts: break
        cut = cuts[0] if cuts else len(stream)
        cab = cabfmt.build_cab([(3 | (wb << 8), [(stream[:cut], 32768), (stream[cut:], total - 32768)])], [(b"x.bin", total, 0, 0, 0x5A21, 0x6C43, 0x20)])
        sc = scenario.Scn().file("in0.cab", cab); cab_ops(sc, 1, 4); out.append(Case("uninit:lzx-frame2-match", "cab", sc))
    for i in range(n):
        # a cabinet cut off inside the payload of a data block, read in salvage mode: whatever the block reader hands on beyond the
        # bytes it really read comes from the freshly allocated input buffer
        meth = [("none",), ("mszip",), ("lzx", 16), ("qtm", 15)][i % 4]
        c = gen.cab_single(rng, nfolders=1, methods=[meth]); cab = c.files["in0.cab"]
        flags = struct.unpack_from("<H", cab, 30)[0]; p_ = 36; dres = 0; fres = 0
        if flags & 4:
            hres, fres, dres = struct.unpack_from("<HBB", cab, p_); p_ += 4 + hres
        for bit in (1, 2):
            if flags & bit:
                for _ in range(2): p_ = cab.index(b"\0", p_) + 1
        q = struct.unpack_from("<I", cab, p_)[0]; nblk = struct.unpack_from("<H", cab, p_ + 4)[0]
        if nblk == 0: continue
        k = rng.randrange(nblk)
        for _ in range(k): q += 8 + dres + struct.unpack_from("<H", cab, q + 4)[0]
        cb = struct.unpack_from("<H", cab, q + 4)[0]
        if cb < 2: continue
        cut = q + 8 + dres + rng.randrange(1, cb)
        sc = scenario.Scn().file("in0.cab", cab[:cut]).op("cab_new").op("cab_param", 3, 1).op("cab_open", "c0", "in0.cab").op("cab_extract_all", "c0", "out", 6).op("cab_close", "c0")
        out.append(Case("uninit:cab-salvage-short-block", "cab", sc))
    for i in range(n):
        # KWAJ LZH: the stream ends inside one code-length list (the other lists are of the fixed type, which reads nothing): the table
        # for that list is built from whatever the length array held
        k = rng.randrange(5); b = BitsMSB()
        for j in range(6): b.bits(rng.choice([1, 2, 3]) if j == k else 0, 4)
        for _ in range(rng.choice([0, 0, 1, 2, 5])): b.bits(rng.choice([0x44, 0x55, 0x88, rng.randrange(256)]), 8)
        kw = kwajfmt.kwaj(3, b.done(), 0)
        sc = scenario.Scn().file("in0.kwj", kw); fmt_ops("kwaj", sc); out.append(Case("uninit:kwaj-lzh-short-lens", "kwaj", sc))
    for i in range(n):
        b = BitsMSB()
        types = [rng.choice([0, 1, 2, 3, 4, 7, 15]) for _ in range(6)]
        if all(t < 4 for t in types[:5]): types[rng.randrange(5)] = rng.randrange(4, 16)
        for t in types: b.bits(t, 4)
        for _ in range(rng.randrange(4, 200)): b.bits(rng.randrange(256), 8)
        kw = kwajfmt.kwaj(3, b.done(), 0)
        sc = scenario.Scn().file("in0.kwj", kw); fmt_ops("kwaj", sc); out.append(Case("uninit:kwaj-lzh-type", "kwaj", sc))
    return out

def cycle_cases(rng, n):
    """CHM directories whose chunk links form cycles (C04): PMGL NextChunk rings and PMGI entries naming their own chunk"""
    out = []
    # directed (own generator state, the same on every run): no index, the last listing chunk links back to the first, the header's
    # last-listing-chunk field absurdly large (it is not checked against the number of chunks); names that are in no chunk of the ring
    r44 = random.Random(440)
    for lastv in (0xFFFFFFFF, 0x7FFFFFFF):
        f0 = [(b"/f%03d.txt" % j, b"x" * (j % 7)) for j in range(40)]
        chm, exp = chmfmt.build(f0, [], r44, chunk_size=256, density=2, with_index=False)
        b = bytearray(chm); hs1 = 0x38 + 0x28 + 0x18; dirstart = hs1 + 0x54
        last = struct.unpack_from("<I", b, hs1 + 0x24)[0]
        struct.pack_into("<I", b, dirstart + last * 256 + 0x10, 0); struct.pack_into("<I", b, hs1 + 0x24, lastv)
        sc = scenario.Scn().file("in0.chm", bytes(b)).op("chm_new").op("chm_fast_open", "h0", "in0.chm")
        for nm in (b"/zzz-absent", b"/f000.txt", b"/f999"): sc.op("chm_find", "h0", nm.hex())
        sc.op("chm_close", "h0")
        out.append(Case("cycle:chm-pmgl", "chm", sc))
    for i in range(n):
        f0 = [(b"/f%03d.txt" % j, b"x" * (j % 7)) for j in range(rng.choice([40, 80]))]
        csz = rng.choice([256, 512])
        try:
            chm, exp = chmfmt.build(f0, [], rng, chunk_size=csz, density=rng.choice([0, 2]), with_index=(i % 2 == 1))
        except ValueError:
            continue
        b = bytearray(chm); hs1 = 0x38 + 0x28 + 0x18; dirstart = hs1 + 0x54
        nchunks = struct.unpack_from("<I", b, hs1 + 0x2C)[0]; last = struct.unpack_from("<I", b, hs1 + 0x24)[0]
        if i % 2 == 0:
            # ring among the PMGL chunks: the last listing chunk points back to an earlier one
            tgt = rng.randrange(0, last + 1)
            struct.pack_into("<I", b, dirstart + last * csz + 0x10, tgt)
            # the header's own idea of the last listing chunk is not checked against the number of chunks: make it absurd in half of these
            if i % 4 == 0: struct.pack_into("<I", b, hs1 + 0x24, rng.choice([0xFFFFFFFF, 0x7FFFFFFF, nchunks + 5]))
        else:
            root = struct.unpack_from("<I", b, hs1 + 0x1C)[0]
            if root == 0xFFFFFFFF: continue
            # first entry of the root PMGI: name_len name chunk#  -> make it name the root itself (single-byte encint if it fits)
            p = dirstart + root * csz + 8; nl = b[p]; q = p + 1 + nl
            if root < 128 and b[q] < 128: b[q] = root
            else: continue
        sc = scenario.Scn().file("in0.chm", bytes(b)).op("chm_new").op("chm_fast_open", "h0", "in0.chm")
        for nm in (b"/f000.txt", b"/zzz-absent", b"/f040.txt", b"/", b"/f999"): sc.op("chm_find", "h0", nm.hex())
        sc.op("chm_close", "h0")
        out.append(Case("cycle:chm-%s" % ("pmgl" if i % 2 == 0 else "pmgi"), "chm", sc))
    return out


def targeted_cases(rng, n):
    """inputs and call sequences aimed at particular paths that byte-level damage reaches only by luck:
    every truncation point of a header with all optional fields; OAB blocks that disagree with the file header or the base file,
    patch padding larger than a small input buffer; a cabinet header whose size field lies beyond the file, searched in salvage mode;
    MSZIP folders read in repair mode with every read failing in turn"""
    out = []
    # (1) every prefix of a KWAJ / SZDD / OAB / OAB-patch / small cabinet header
    for i in range(max(1, n // 3)):
        comp = [0, 1, 2][i % 3]; plain = bytes(rng.choice(b"xyz \n") for _ in range(40))
        payload = plain if comp == 0 else (bytes(b ^ 0xFF for b in plain) if comp == 1 else py_lzss(rng, 9, 2)[0])
        f = kwajfmt.kwaj(comp, payload, 63, len(plain), b"ab", b"unk2!", b"NAME", b"EX", b"extra text, some of it")
        hdr = len(f) - len(payload)
        for k in range(0, hdr + 3):
            sc = scenario.Scn().file("in0.kwj", f[:k]); fmt_ops("kwaj", sc); out.append(Case("trunc:kwaj", "kwaj", sc))
    for kind in (0, 1):
        enc, plain = py_lzss(rng, 12, 0 if kind == 0 else 2); f = kwajfmt.szdd(kind, len(plain), enc)
        for k in range(0, 16):
            sc = scenario.Scn().file("in0.sz", f[:k]); fmt_ops("szdd", sc); out.append(Case("trunc:szdd", "szdd", sc))
    oab, plain = oabfmt.build_full(rng, [300, 0, 40], kinds=[1, 0, 0])
    for k in list(range(0, 34)) + [len(oab) - 41, len(oab) - 1]:
        sc = scenario.Scn().file("in0.oab", oab[:k]); fmt_ops("oab", sc); out.append(Case("trunc:oab", "oab", sc))
    pt, base, plain = oabfmt.build_patch(rng, [(100, 300), (50, 20)])
    for k in list(range(0, 46)) + [len(pt) - 30, len(pt) - 1]:
        sc = scenario.Scn().file("in0.pat", pt[:k]).file("in0.base", base); fmt_ops("oabp", sc); out.append(Case("trunc:oabp", "oabp", sc))
    c = gen.cab_single(rng, nfolders=1, methods=[("none",)]); cab = c.files["in0.cab"]
    for k in range(0, min(len(cab), 110), 1 if n > 6 else 3):
        sc = scenario.Scn().file("in0.cab", cab[:k]); cab_ops(sc, 1, 4); out.append(Case("trunc:cab", "cab", sc))
    # (2) OAB patches whose blocks ask for more base data than the base file holds; full files whose later block is longer than what is left
    for i in range(max(2, n // 2)):
        pt, base, plain = oabfmt.build_patch(rng, [(rng.choice([100, 1000, 40000]), rng.choice([50, 500])) for _ in range(rng.randrange(1, 3))])
        cut = rng.choice([0, 1, len(base) // 2, max(len(base) - 1, 0)])
        sc = scenario.Scn().file("in0.pat", pt).file("in0.base", base[:cut]); sc.op("oab_new").op("oab_incr", "in0.pat", "in0.base", "out0").op("oab_incr", "in0.pat", "in0.base", "out1")
        out.append(Case("hostile:oabp-short-base", "oabp", sc))
        sizes = [rng.choice([10, 300]) for _ in range(rng.randrange(2, 4))]
        oab, plain = oabfmt.build_full(rng, sizes, block_max=max(sizes) + rng.choice([0, 6]))
        b = bytearray(oab); tgt = sum(sizes) - rng.randrange(1, sizes[-1] + 1)          # the last block no longer fits into the declared size
        struct.pack_into("<I", b, 12, tgt)
        sc = scenario.Scn().file("in0.oab", bytes(b)); fmt_ops("oab", sc); out.append(Case("hostile:oab-overlong-block", "oab", sc))
    # (3) small input buffers with block padding larger than the buffer (full files and patches)
    for i in range(max(2, n // 2)):
        bufsz = rng.choice([16, 64, 1000, 4095])
        padf = lambda ln: (bufsz * rng.choice([1, 3]) + rng.choice([1, 7, 900])) if rng.random() < 0.7 else 0
        pt, base, plain = oabfmt.build_patch(rng, [(rng.choice([0, 100, 3000]), rng.choice([8, 500, 33000])) for _ in range(rng.randrange(1, 3))], pad_fn=padf)
        sc = scenario.Scn().file("in0.pat", pt).file("in0.base", base).op("oab_new").op("oab_param", 0, bufsz).op("oab_incr", "in0.pat", "in0.base", "out0")
        out.append(Case("gen:oabp-smallbuf-pad", "oabp", sc, True, plain))
        oab, plain = oabfmt.build_full(rng, [rng.choice([8, 500, 33000]) for _ in range(rng.randrange(1, 3))], pad_fn=lambda i_, ln: padf(ln))
        sc = scenario.Scn().file("in0.oab", oab).op("oab_new").op("oab_param", 0, bufsz).op("oab_decompress", "in0.oab", "out0")
        out.append(Case("gen:oab-smallbuf-pad", "oab", sc, True, plain))
    # (4) search() in salvage mode over a header whose cabinet-size field lies beyond the file (and whose files offset is tiny)
    for i in range(max(2, n // 2)):
        c = gen.cab_single(rng, nfolders=1, methods=[rng.choice([("none",), ("mszip",)])]); b = bytearray(c.files["in0.cab"])
        # the first of these is always: salvage on, size field far beyond the file, files offset 0
        struct.pack_into("<I", b, 8, 0x7FFFFFFF if i == 0 else rng.choice([0x7FFFFFFF, len(b) + 1, len(b) + 70000, 0xFFFFFFFF]))
        if i == 0 or rng.random() < 0.7: struct.pack_into("<I", b, 16, 0 if i == 0 else rng.choice([0, 0, 1, 4, 36]))
        junk = bytes(rng.randrange(256) for _ in range(rng.choice([0, 3, 700])))
        sc = scenario.Scn().file("in0.cab", junk + bytes(b) + junk[:5]).op("cab_new").op("cab_param", 3, 1 if i == 0 else rng.choice([1, 1, 0])).op("cab_search", "c0", "in0.cab")
        sc.op("cab_extract_all", "c0", "out", 4).op("cab_close", "c0")
        out.append(Case("hostile:cab-search-size", "cab", sc))
    # (5) MSZIP (and the other methods) with the repair / salvage parameters on, several blocks: every read fails in turn
    for i in range(max(4, n // 2)):
        meth = [("mszip",), ("qtm", 15), ("mszip",), ("lzx", 16), ("mszip",), ("none",), ("qtm", 17), ("lzx", 17)][i % 8]
        lens = [33000, 40000, 33000] if i == 0 else [rng.choice([33000, 50000]), rng.choice([20000, 40000]), rng.choice([100, 33000])]     # the first: four blocks, the first member ends well before the last one
        if meth[0] in ("mszip", "none"): fo = cabfmt.Folder(meth, cabfmt.random_members(rng, 3, lens=lens))
        else: fo = cabfmt.Folder(meth, [cabfmt.Member(b"r%d.bin" % j, length=lens[j]) for j in range(3)])
        cab = cabfmt.build_single([fo], rng, with_ck=True)
        sc = scenario.Scn().file("in0.cab", cab).op("cab_new").op("cab_param", 1, 1 if i % 4 < 3 else 0).op("cab_param", 3, 1 if i % 4 == 1 else 0)
        # all members in order, then backwards (each step back rebuilds the decoder), then forwards again
        sc.op("cab_open", "c0", "in0.cab").op("cab_extract_all", "c0", "out", 3).op("cab_extract_all", "c0", "outr", 3, 1).op("cab_extract_all", "c0", "outf", 3).op("cab_close", "c0")
        out.append(Case("gen:cab-repair-params", "cab", sc, True, None, all_faults=True))
    # (6) a data block split over two cabinets whose parts together exceed the input array although each part alone fits (strict and salvage mode)
    for i in range(max(2, n // 3)):
        salv = 1 if i % 2 == 0 else 0
        p1, p2 = (40000, 40000) if i < 2 else (rng.choice([30000, 38912, 65535]), rng.choice([8913, 27000, 65535]))
        fo = cabfmt.Folder(("none",), cabfmt.random_members(rng, 2, lens=[20000, 12868])); fo.prepare(rng)
        fo.blocks = [(bytes(rng.randrange(256) for _ in range(64)) * ((p1 + p2) // 64 + 1), 32768)]; fo.blocks = [(fo.blocks[0][0][:p1 + p2], 32768)]
        cabs, names = cabfmt.build_set([fo], [(0, 0, p1)], rng, with_ck=False)
        sc = scenario.Scn()
        for k, cb in enumerate(cabs): sc.file("in%d.cab" % k, cb)
        sc.op("cab_new").op("cab_param", 3, salv).op("cab_open", "c0", "in0.cab").op("cab_open", "c1", "in1.cab").op("cab_append", "c0", "c1")
        sc.op("cab_extract_all", "c0", "out", 4).op("cab_close", "c0")
        out.append(Case("hostile:cab-oversize-split-block", "cab", sc))
    # (7) Quantum folders with a window smaller than the frame (bits 10..14) over pseudo-random and damaged streams: matches that wrap the
    #     window end at a frame boundary and overshoot the frame
    for i in range(max(4, n)):
        wb = [10, 11, 12, 10, 13, 14][i % 6]
        fo = cabfmt.Folder(("qtm", wb), [cabfmt.Member(b"q%d.bin" % j, length=[3000, 33000, 30000][j]) for j in range(3)]); fo.prepare(rng)
        if i % 2 == 0: fo.blocks = [(bytes(rng.randrange(256) for _ in range(rng.choice([300, 2000, 9000]))), u) for (pl, u) in fo.blocks]
        else:
            bl = []
            for (pl, u) in fo.blocks:
                b = bytearray(pl)
                for _ in range(rng.choice([1, 3, 10])): b[rng.randrange(len(b))] ^= 1 << rng.randrange(8)
                bl.append((bytes(b), u))
            fo.blocks = bl
        cab = cabfmt.build_single([fo], rng, with_ck=True)
        sc = scenario.Scn().file("in0.cab", cab).op("cab_new").op("cab_param", 3, i % 3 == 2 and 1 or 0).op("cab_open", "c0", "in0.cab").op("cab_extract_all", "c0", "out", 3).op("cab_close", "c0")
        out.append(Case("hostile:qtm-small-window", "cab", sc))
    # (8) a CHM whose directory spans several chunks: every host call of open / find fails in turn
    for i in range(max(1, n // 4)):
        f0 = [(b"/index.html", b"<html>hi</html>")] + [(b"/d%02d.txt" % j, bytes([65 + j % 26]) * rng.randrange(0, 30)) for j in range(30)]
        chm, exp = chmfmt.build(f0, [], rng, chunk_size=256, density=2, with_index=(i % 2 == 0))
        sc = scenario.Scn().file("in0.chm", chm).op("chm_new").op("chm_open", "h0", "in0.chm").op("chm_find_all", "h0", 4).op("chm_close", "h0")
        out.append(Case("gen:chm-multichunk-faults", "chm", sc, True, exp, all_faults=True))
    # (9) a reset table that stops before the end of the stream (SpanInfo valid): members in the uncovered range extracted first, then again after others
    for i in range(max(2, n // 3)):
        f1 = [(b"/c%d.bin" % j, [30000, 40000, 20000][j]) for j in range(3)]
        chm, exp = chmfmt.build([(b"/index.html", b"<html>hi</html>")], f1, rng, chunk_size=4096, wbits=rng.choice([15, 16]), reset_frames=1, rt_keep=1 + i % 2,
                                rt_entry_size=rng.choice([8, 4]), version=3)
        names = sorted(exp.keys(), key=chmfmt.sort_key); k2 = names.index(b"/c2.bin"); k1 = names.index(b"/c1.bin"); k0 = names.index(b"/c0.bin")
        sc = scenario.Scn().file("in0.chm", chm).op("chm_new").op("chm_open", "h0", "in0.chm")
        for k in (k2, k0, k1, k2, k1): sc.op("chm_extract", "h0", k, "out%d" % len(sc.lines))
        sc.op("chm_close", "h0")
        out.append(Case("gen:chm-short-reset-table", "chm", sc, True, exp))
    # (10) a CHM cut in the middle of a directory chunk: the same name looked up twice on one fast_open()ed header (a failed chunk read must leave nothing behind)
    #      (own generator state: every cut position x with / without index, the same on every run)
    r10 = random.Random(10)
    for i, (k, cutoff, widx) in enumerate([(1, 20, False), (1, 100, False), (1, 200, False), (2, 100, True), (2, 200, False), (3, 20, True)][:max(2, n)]):
        f0 = [(b"/f%03d.txt" % j, b"x" * (j % 7)) for j in range(60)]
        chm, exp = chmfmt.build(f0, [], r10, chunk_size=256, density=[0, 2][i % 2], with_index=widx)
        dirstart = 0x38 + 0x28 + 0x18 + 0x54
        cut = chm[:dirstart + k * 256 + cutoff]
        sc = scenario.Scn().file("in0.chm", cut).op("chm_new").op("chm_fast_open", "h0", "in0.chm")
        for nm in (b"/f%03d.txt" % (10 * k + 8), b"/f%03d.txt" % (10 * k + 8), b"/f059.txt", b"/f059.txt", b"/f000.txt", b"/f%03d.txt" % (10 * k + 9)): sc.op("chm_find", "h0", nm.hex())
        sc.op("chm_close", "h0")
        out.append(Case("hostile:chm-cut-chunk-refind", "chm", sc, all_faults=True))        # few host calls: every one of them fails in turn
    # (11) well-formed Quantum folders with a window smaller than the frame: matches straddle the window end while members are extracted and skipped
    for i in range(max(3, n // 2)):
        wb = [10, 11, 10, 12, 13][i % 5]
        fo = cabfmt.Folder(("qtm", wb), [cabfmt.Member(b"w%d.bin" % j, length=[3000, 5000, 7000][j]) for j in range(3)])
        cab = cabfmt.build_single([fo], rng, with_ck=True)
        sc = scenario.Scn().file("in0.cab", cab).op("cab_new").op("cab_open", "c0", "in0.cab").op("cab_extract_all", "c0", "out", 3).op("cab_extract_all", "c0", "outr", 3, 1).op("cab_close", "c0")
        out.append(Case("gen:qtm-small-window", "cab", sc))
    # (12) reset tables whose TableOffset field points near 2^32 / beyond the table (32-bit arithmetic on file-controlled offsets)
    for i in range(max(3, n // 2)):
        f1 = [(b"/c%d.bin" % j, [30000, 40000][j]) for j in range(2)]
        es = [8, 4][i % 2]
        chm, exp = chmfmt.build([(b"/index.html", b"<html>hi</html>")], f1, rng, chunk_size=4096, wbits=16, reset_frames=1, rt_entry_size=es, version=3)
        rt = exp[chmfmt.RTABLE][3]; at = chm.find(rt)
        if at < 0: continue
        b = bytearray(chm)
        struct.pack_into("<I", b, at + 12, [0xFFFFFFF8, 0xFFFFFFFC, 0xFFFFFFF0, len(rt) - 4, len(rt), 0x7FFFFFF8, 0xFFFFFFFF][i % 7] if es == 8 or i % 7 != 0 else 0xFFFFFFFC)
        sc = scenario.Scn().file("in0.chm", bytes(b)); fmt_ops("chm", sc, 8); out.append(Case("hostile:chm-reset-table-offset", "chm", sc))
    # (13) MSZIP blocks that produce more than a frame: a stored block longer than the room left in the frame, a deflate stream of 40000 bytes;
    #      strict and repair mode, more than a frame requested
    for i in range(max(4, n // 2)):
        kind = i % 4
        if kind == 0: blk = b"CK" + bytes([1]) + struct.pack("<HH", 0x8001, 0x7FFE) + bytes(rng.randrange(256) for _ in range(0x8001))
        elif kind == 1:
            d1 = bytes(rng.randrange(256) for _ in range(20000)); d2 = bytes(rng.randrange(256) for _ in range(18000))
            blk = b"CK" + bytes([0]) + struct.pack("<HH", 20000, 20000 ^ 0xFFFF) + d1 + bytes([1]) + struct.pack("<HH", 18000, 18000 ^ 0xFFFF) + d2
        else:
            raw = bytes(rng.choice(b"abcdefgh") for _ in range([40000, 32769, 65536][i // 4 % 3])); co = zlib.compressobj(9, zlib.DEFLATED, -15)
            blk = b"CK" + co.compress(raw) + co.flush()
        fo = cabfmt.Folder(("mszip",), cabfmt.random_members(rng, 2, lens=[70000, 100])); fo.prepare(rng)
        fo.blocks = [(blk, 32768)] + fo.blocks[1:]
        cab = cabfmt.build_single([fo], rng, with_ck=True)
        sc = scenario.Scn().file("in0.cab", cab).op("cab_new").op("cab_param", 1, 1 if i % 2 == 0 or kind == 2 else 0).op("cab_open", "c0", "in0.cab").op("cab_extract_all", "c0", "out", 2).op("cab_close", "c0")
        out.append(Case("hostile:mszip-overlong-block", "cab", sc))
    # (14) a directory chunk with a wrong signature reached by fast_find (twice), then close
    for i in range(max(2, n // 3)):
        f0 = [(b"/f%03d.txt" % j, b"x" * (j % 7)) for j in range(60)]
        chm, exp = chmfmt.build(f0, [], rng, chunk_size=256, density=2, with_index=(i % 2 == 1))
        dirstart = 0x38 + 0x28 + 0x18 + 0x54; k = i % 3
        b = bytearray(chm); b[dirstart + k * 256 + 3] = ord("X")
        sc = scenario.Scn().file("in0.chm", bytes(b)).op("chm_new").op("chm_fast_open", "h0", "in0.chm")
        for nm in (b"/f%03d.txt" % (10 * k + 2), b"/f%03d.txt" % (10 * k + 2), b"/f059.txt", b"/f000.txt"): sc.op("chm_find", "h0", nm.hex())
        sc.op("chm_close", "h0")
        out.append(Case("hostile:chm-bad-chunk-signature", "chm", sc))
    # (15) search() over a small well-formed cabinet behind a stub with every host call failing in turn (a read or seek failure while a
    #      candidate header is parsed: the recorded findings fault-ok:cab_search:read / :seek)
    r15 = random.Random(15); c = gen.cab_single(r15, nfolders=1, methods=[("none",)]); c2 = gen.cab_single(r15, nfolders=1, methods=[("none",)])
    sc = scenario.Scn().file("in0.cab", b"stub " * 7 + c.files["in0.cab"] + b"between" + c2.files["in0.cab"]).op("cab_new").op("cab_search", "c0", "in0.cab").op("cab_extract_all", "c0", "out", 4).op("cab_close", "c0")
    out.append(Case("gen:cab-search-faults", "cab", sc, True, None, all_faults=True))
    # (16) directory names that are not valid UTF-8 (single-byte code pages), every listed name looked up
    for i in range(max(1, n // 4)):
        bad = [b"/\xfcbersicht.html", b"/caf\xe9", b"/caf\xe9.txt", b"/k\x80", b"/m\xff\xfe", b"/a\xc3", b"/d\xe2\x82", b"/b\xf0\x9f\x98", b"/n\xc0\xaf1", b"/z\xf8x"]
        f0 = [(nm, b"d%d" % k) for k, nm in enumerate(bad)] + [(b"/plain%02d" % k, b"") for k in range(6)]
        chm, exp = chmfmt.build(f0, (), rng, chunk_size=[4096, 128][i % 2], density=2, with_index=True, version=3)
        sc = scenario.Scn().file("in0.chm", chm).op("chm_new").op("chm_open", "h0", "in0.chm").op("chm_find_all", "h0", 40).op("chm_close", "h0")
        out.append(Case("gen:chm-bytes-names", "chm", sc))
    # (17) a compressed-section member declared longer than the section holds, by less than the padding to the reset interval
    for i in range(max(2, n // 3)):
        f1 = [(b"/c%d.bin" % j, [3000, 1349][j]) for j in range(2)]
        chm, exp = chmfmt.build([(b"/index.html", b"<html>hi</html>")], f1, rng, chunk_size=4096, wbits=16, reset_frames=2, with_rtable=(i % 2 == 0), version=3,
                                overlong_last=[100, 2, 1, 60000][i % 4])
        sc = scenario.Scn().file("in0.chm", chm); fmt_ops("chm", sc, 8); out.append(Case("hostile:chm-overlong-member", "chm", sc))
    # (18) a compressed section of three reset intervals, the member of the last interval first: every host call fails in turn
    for i in range(1):
        f1 = [(b"/c%d.bin" % j, [3000, 67000, 75000][j]) for j in range(3)]
        # (stored-type LZX blocks: a decoder started at the wrong place still decodes - to other bytes)
        chm, exp = chmfmt.build([(b"/index.html", b"<html>hi</html>")], f1, rng, chunk_size=4096, wbits=16, reset_frames=2, version=3, lzx_btypes=[3])
        names = sorted(exp.keys(), key=chmfmt.sort_key)
        # (two short scenarios: the fault sweep injects at most the first 60 calls of each kind)
        sc = scenario.Scn().file("in0.chm", chm).op("chm_new").op("chm_open", "h1", "in0.chm").op("chm_extract", "h1", names.index(b"/c2.bin"), "out2").op("chm_extract", "h1", names.index(b"/c2.bin"), "out3").op("chm_extract", "h1", names.index(b"/c1.bin"), "out4").op("chm_close", "h1")
        out.append(Case("gen:chm-reset-faults", "chm", sc, True, exp, all_faults=True))
        sc = scenario.Scn().file("in0.chm", chm).op("chm_new").op("chm_fast_open", "h0", "in0.chm").op("chm_find", "h0", b"/c2.bin".hex(), "out0").op("chm_find", "h0", b"/c2.bin".hex(), "out1").op("chm_close", "h0")
        out.append(Case("gen:chm-reset-faults", "chm", sc, True, exp, all_faults=True))
    # (19) after a good member of the compressed section, a member whose directory offset lies far beyond the section (7-byte ENCINT);
    #      a long reset interval and no reset table, data after the LZX stream: the second call must be refused at once, not skipped towards
    r19 = random.Random(19)
    for i in range(2):
        far = [1 << 45, (1 << 32) + 5000][i % 2]
        chm, exp = chmfmt.build([(b"/index.html", b"<html>hi</html>")], [(b"/a.txt", 100)], r19, chunk_size=4096, wbits=16, reset_frames=0x7FFF, with_rtable=False, version=3,
                                content_last=False, lzx_btypes=[3], extra_entries=[(b"/b.txt", 1, far, 50)])
        names = sorted(exp.keys(), key=chmfmt.sort_key)
        chm += bytes(6000)        # (bytes after the LZX stream: a decoder that runs on has input to nibble at, one bit per reset interval)
        sc = scenario.Scn().file("in0.chm", chm).op("chm_new").op("chm_open", "h1", "in0.chm").op("chm_extract", "h1", names.index(b"/a.txt"), "out0").op("chm_extract", "h1", names.index(b"/b.txt"), "out1").op("chm_extract", "h1", names.index(b"/a.txt"), "out2").op("chm_close", "h1")
        out.append(Case("hostile:chm-far-offset-after-extract", "chm", sc))
    # (22) MSZIP: a second frame whose long matches reach almost a whole frame back (distance 32768 and a few less: the source lies just
    #      ahead of the destination in the window) - legal deflate that compressors hardly ever emit
    r22 = random.Random(22)
    for i, toks in enumerate([[("M", 20, 32768), ("L", 65), ("M", 258, 32600), ("L", 66)], [("L", 67), ("M", 258, 32768), ("M", 100, 32767)], [("M", 13, 32757), ("M", 258, 32512)]][:max(2, n // 2)]):
        first = bytes(r22.randrange(256) for _ in range(32768)); co = zlib.compressobj(6, zlib.DEFLATED, -15)
        blk1 = b"CK" + co.compress(first) + co.flush()
        win = bytearray(first); pos = 0
        for t in toks:
            if t[0] == "L": win[pos] = t[1]; pos += 1
            else:
                for _ in range(t[1]): win[pos] = win[(pos - t[2]) % 32768]; pos += 1
        data = first + bytes(win[:pos])
        cab = cabfmt.build_cab([(1, [(blk1, 32768), (b"CK" + fixed_deflate_any(toks), pos)])], [(b"far.bin", len(data), 0, 0, 0x5A21, 0x6C43, 0x20)])
        sc = scenario.Scn().file("in0.cab", cab); cab_ops(sc, 1, 4); out.append(Case("gen:mszip-far-match", "cab", sc, True, [data]))
    # (21) a SpanInfo entry whose declared length is not 8 (64-bit values whose low 32 bits are small included), no reset table to fall back on
    r21 = random.Random(21)
    for i, dl in enumerate([(1 << 32) + 4, 1 << 32, 7, 16, (1 << 32) + 8, 0][:max(3, n)]):
        chm, exp = chmfmt.build([(b"/index.html", b"<html>hi</html>")], [(b"/a.txt", 100), (b"/b.txt", 50)], r21, chunk_size=4096, wbits=16, reset_frames=2, with_rtable=False, version=3,
                                sys_len={chmfmt.SPANINFO: dl})
        names = sorted(exp.keys(), key=chmfmt.sort_key)
        sc = scenario.Scn().file("in0.chm", chm).op("chm_new").op("chm_open", "h1", "in0.chm").op("chm_extract", "h1", names.index(b"/a.txt"), "out0").op("chm_extract", "h1", names.index(b"/b.txt"), "out1").op("chm_close", "h1")
        out.append(Case("hostile:chm-spaninfo-length", "chm", sc))
    # (20) the last member of a folder declared longer than the folder's blocks inflate to (still inside blocks x 32K), under the four
    #      FIXMSZIP x SALVAGE settings: never OK with fewer bytes than declared outside salvage mode
    r20 = random.Random(20)
    for i in range(max(4, n // 2)):
        meth = [("mszip",), ("mszip",), ("qtm", 16), ("lzx", 16)][i // 4 % 4]
        fo = cabfmt.Folder(meth, cabfmt.random_members(r20, 2, lens=[3000, 2000])); fo.prepare(r20)
        extra = [1, 500, 20000, 7][i // 4 % 4]
        files = [(m.name, m.length + (extra if k == 1 else 0), 3000 * k, 0, m.date, m.time, m.attribs) for k, m in enumerate(fo.members)]
        cab = cabfmt.build_cab([(fo.comp_type(), fo.blocks)], files)
        sc = scenario.Scn().file("in0.cab", cab).op("cab_new").op("cab_param", 1, i % 2).op("cab_param", 3, (i // 2) % 2).op("cab_open", "c0", "in0.cab").op("cab_extract_all", "c0", "out", 4).op("cab_close", "c0")
        out.append(Case("hostile:cab-member-past-folder-data", "cab", sc))
    return out
