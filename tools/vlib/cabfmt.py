"""CAB builder: abstract cabinet sets -> bytes (the generator side of the correspondence and search oracles)."""
import struct, zlib, random
from . import lzxenc, qtmenc

def cksum(data, seed=0):
    ck = seed; n = len(data) // 4
    for i in range(n): ck ^= struct.unpack_from("<I", data, 4 * i)[0]
    rest = data[4 * n:]; ul = 0
    if len(rest) == 3: ul = (rest[0] << 16) | (rest[1] << 8) | rest[2]
    elif len(rest) == 2: ul = (rest[0] << 8) | rest[1]
    elif len(rest) == 1: ul = rest[0]
    return ck ^ ul

def cfdata(payload, ulen, resv=b"", with_ck=True, ck_override=None):
    hdr4 = struct.pack("<HH", len(payload), ulen)
    ck = cksum(hdr4, cksum(payload, 0)) if with_ck else 0
    if ck_override is not None: ck = ck_override
    return struct.pack("<I", ck) + hdr4 + resv + payload

class Member:
    def __init__(self, name, data=None, length=None, attribs=0x20, date=0x5A21, time=0x6C43):
        self.name = name if isinstance(name, bytes) else name.encode()
        self.data = data; self.length = length; self.attribs = attribs; self.date = date; self.time = time

class Folder:
    """method: ('none',) | ('mszip',) | ('lzx', wbits) | ('qtm', wbits).  members: list of Member; for lzx/qtm the
    folder plaintext is drawn by the encoder and member data are slices of it (member.length set beforehand)."""
    def __init__(self, method, members):
        self.method = method; self.members = members; self.blocks = None; self.plain = None
    def comp_type(self):
        m = self.method
        return {"none": 0, "mszip": 1}.get(m[0], None) if m[0] in ("none", "mszip") else ((2 if m[0] == "qtm" else 3) | (m[1] << 8))
    def prepare(self, rng):
        if self.blocks is not None: return
        m = self.method
        if m[0] in ("lzx", "qtm"):
            total = sum(x.length for x in self.members)
            if m[0] == "lzx":
                cuts = []; stream, plain = lzxenc.encode(rng, m[1], total, cuts=cuts)
                cuts = [c for c in cuts if 0 < c < len(stream)] ; cuts = sorted(set(cuts))
                nfr = (total + 32767) // 32768
                # one CFDATA per frame: cut positions must be exactly nfr-1; fall back to even split if the encoder's bookkeeping differs
                if len(cuts) != max(nfr - 1, 0): cuts = [len(stream) * (i + 1) // nfr for i in range(nfr - 1)]
                parts = [stream[a:b] for a, b in zip([0] + cuts, cuts + [len(stream)])] if total else [stream]
                self.blocks = [(p, min(32768, total - 32768 * i)) for i, p in enumerate(parts)] if total else []
            else:
                frames = []; stream, plain = qtmenc.encode(rng, m[1], total, frames=frames)
                self.blocks = [(f, min(32768, total - 32768 * i)) for i, f in enumerate(frames)]
            self.plain = plain; off = 0
            for x in self.members: x.data = plain[off:off + x.length]; off += x.length
        else:
            plain = b"".join(x.data for x in self.members); self.plain = plain; self.blocks = []
            for i in range(0, len(plain), 32768):
                chunk = plain[i:i + 32768]
                if m[0] == "none": self.blocks.append((chunk, len(chunk)))
                else:
                    level = rng.choice([0, 1, 6, 9]); strat = rng.choice([zlib.Z_DEFAULT_STRATEGY, zlib.Z_FILTERED, zlib.Z_HUFFMAN_ONLY, zlib.Z_RLE, zlib.Z_FIXED])
                    hist = plain[max(0, i - 32768):i]
                    co = zlib.compressobj(level, zlib.DEFLATED, -15, 9, strat, hist) if hist else zlib.compressobj(level, zlib.DEFLATED, -15, 9, strat)
                    self.blocks.append((b"CK" + co.compress(chunk) + co.flush(), len(chunk)))
        for x in self.members:
            if x.length is None: x.length = len(x.data)

def cstr(b): return b + b"\0"

def build_cab(folders_parts, files, set_id=0x1234, set_index=0, hres=None, fres=b"", dres=b"", prev=None, nxt=None,
              with_ck=True, flags_extra=0, version=(3, 1), cabsize_override=None, gaps=(0, 0, 0)):
    """folders_parts: list of (comp_type, [cfdata bytes already built WITHOUT reserve handling? no: list of (payload, ulen)])
       files: list of (name, length, offset, folder_index_field, date, time, attribs).  Returns bytes of one cabinet."""
    flags = flags_extra | (1 if prev else 0) | (2 if nxt else 0) | (4 if hres is not None else 0)
    body = b""
    if hres is not None: body += struct.pack("<HBB", len(hres), len(fres), len(dres)) + hres
    if prev: body += cstr(prev[0]) + cstr(prev[1])
    if nxt: body += cstr(nxt[0]) + cstr(nxt[1])
    nfold = len(folders_parts)
    ftab = b"".join(struct.pack("<IIHHHH", ln, off, fidx, date, time, attr) + cstr(name) for (name, ln, off, fidx, date, time, attr) in files)
    head_len = 36 + len(body)
    fold_len = nfold * (8 + (len(fres) if hres is not None else 0))
    # the header says where the file table starts and every folder where its data starts: the tables need not be packed back to back
    # gaps = (bytes between folder table and file table, between file table and data, between the data of two folders)
    g0, g1, g2 = gaps
    files_off = head_len + fold_len + g0
    data_off = files_off + len(ftab) + g1
    fold = b""; data = b""
    for fi_, (ct, parts) in enumerate(folders_parts):
        if fi_ > 0: data += bytes((7 * k + 1) & 255 for k in range(g2))
        fold += struct.pack("<IHH", data_off + len(data), len(parts), ct) + (fres if hres is not None else b"")
        for (payload, ulen) in parts:
            data += cfdata(payload, ulen, dres if hres is not None else b"", with_ck)
    total = data_off + len(data)
    fold += bytes((3 * k + 2) & 255 for k in range(g0)); ftab += bytes((5 * k + 3) & 255 for k in range(g1))
    hdr = struct.pack("<4sIIIIIBBHHHHH", b"MSCF", 0, total if cabsize_override is None else cabsize_override, 0, files_off, 0, version[0], version[1],
                      nfold, len(files), flags, set_id, set_index)
    return hdr + body + fold + ftab + data

def build_single(folders, rng, **kw):
    """one cabinet holding all folders"""
    fp = []; files = []
    for fi, f in enumerate(folders):
        f.prepare(rng); fp.append((f.comp_type(), f.blocks)); off = 0
        for m in f.members:
            files.append((m.name, m.length, off, fi, m.date, m.time, m.attribs)); off += m.length
    return build_cab(fp, files, **kw)

def build_set(folders, cuts, rng, names=None, per_part=None, files_hook=None, **kw):
    """split the folders over len(cuts)+1 cabinets.  cuts: increasing list of (folder index, block index, byte offset in that block's payload):
    cabinet k ends inside that block after `offset` payload bytes (the block is split: first part has ulen 0).  Returns list of cabinet bytes."""
    for f in folders: f.prepare(rng)
    ncab = len(cuts) + 1      # a cut is (folder, block, offset) = split inside that block, or (folder, "end", 0) = boundary after that folder
    names = names or [("part%d.cab" % (i + 1)).encode() for i in range(ncab)]
    # per cabinet: list of (folder idx, parts)
    cabs = [[] for _ in range(ncab)]
    k = 0; cutq = list(cuts)
    span = {}   # folder idx -> list of cab indices it appears in
    for fi, f in enumerate(folders):
        cur = []
        for bi, (payload, ulen) in enumerate(f.blocks):
            if cutq and cutq[0][0] == fi and cutq[0][1] == bi:
                rest = payload
                while cutq and cutq[0][0] == fi and cutq[0][1] == bi:
                    off = min(cutq[0][2], len(rest)); cutq.pop(0)
                    cur.append((rest[:off], 0)); cabs[k].append((fi, cur)); span.setdefault(fi, []).append(k)
                    k += 1; cur = []; rest = rest[off:]
                cur.append((rest, ulen))
            else:
                cur.append((payload, ulen))
        cabs[k].append((fi, cur)); span.setdefault(fi, []).append(k)
        if cutq and cutq[0][0] == fi and cutq[0][1] == "end":     # cabinet boundary between two folders: nothing is split
            cutq.pop(0); k += 1
    # byte ranges (in plaintext) of each folder part: blocks with ulen==0 contribute nothing; a split block's bytes count in the cabinet holding its last part
    out = []
    for ci in range(ncab):
        fparts = []; files = []
        for local, (fi, parts) in enumerate(cabs[ci]):
            f = folders[fi]; fparts.append((f.comp_type(), parts))
            cl = span[fi]; first = ci == cl[0]; last = ci == cl[-1]
            # plaintext range decodable once this cabinet's part is available
            def upto(c):   # plaintext bytes covered by parts in cabinets <= c
                n = 0
                for cc in cl:
                    if cc > c: break
                    for (fi2, ps) in cabs[cc]:
                        if fi2 == fi: n += sum(u for _, u in ps)
                return n
            lo = upto(ci - 1) if not first else 0; hi = upto(ci)
            off = 0
            for m in f.members:
                a, b = off, off + m.length; off = b
                if first:
                    reaches_next = (b > hi) and not last
                    fidx = 0xFFFE if reaches_next else local
                    files.append((m.name, m.length, a, fidx, m.date, m.time, m.attribs))
                else:
                    if b > lo and (a < hi or (a == b == hi)) and a < hi:
                        reaches_next = (b > hi) and not last
                        fidx = 0xFFFF if reaches_next else 0xFFFD
                        files.append((m.name, m.length, a, fidx, m.date, m.time, m.attribs))
        if files_hook: files = files_hook(ci, files)
        prev = (names[ci - 1], b"disk%d" % ci) if ci > 0 else None
        nxt = (names[ci + 1], b"disk%d" % (ci + 2)) if ci + 1 < ncab else None
        kw2 = dict(kw); kw2.setdefault("set_index", 0); kw2["set_index"] = ci
        if per_part: kw2.update(per_part[ci])     # e.g. different reserve sizes in each part
        out.append(build_cab(fparts, files, prev=prev, nxt=nxt, **kw2))
    return out, names

def random_members(rng, n, maxlen=3000, lens=None):
    ms = []
    for i in range(n):
        ln = lens[i] if lens else rng.choice([0, 1, 2, 100, rng.randrange(maxlen + 1)])
        kind = rng.random()
        if kind < 0.4: data = bytes(rng.randrange(256) for _ in range(ln))
        elif kind < 0.8: data = bytes(rng.choice(b"abcdefgh \n") for _ in range(ln))
        else: data = (b"The quick brown fox. " * (ln // 21 + 1))[:ln]
        nm = b"f%d_%s.txt" % (i, bytes(rng.choice(b"abcXYZ") for _ in range(rng.randrange(1, 8))))
        ms.append(Member(nm, data, ln, attribs=rng.choice([0x20, 0x01, 0x21, 0x40, 0x00, 0xA0]), date=rng.randrange(1, 65536), time=rng.randrange(65536)))
    return ms
