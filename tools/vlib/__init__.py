"""Shared machinery for /verif/tools/check: regen, Coq build, assumptions, drivers, evidence."""
import os, sys, subprocess, hashlib, json, time, glob, re, shutil, tempfile, random

VERIF = os.path.dirname(os.path.dirname(os.path.dirname(os.path.abspath(__file__))))
REPO = os.environ.get("VERIF_REPO", "/repo")
MSPACK = os.path.join(REPO, "libmspack", "mspack")
COQ = os.path.join(VERIF, "coq")
CACHE = os.path.join(VERIF, ".cache")
EVID = os.path.join(VERIF, "evidence")
NCPU = os.cpu_count() or 4

def sh(cmd, cwd=None, timeout=None, inp=None, env=None):
    """run a shell command; returns (rc, stdout+stderr)"""
    try:
        p = subprocess.run(cmd, shell=isinstance(cmd, str), cwd=cwd, input=inp, capture_output=True, timeout=timeout, env=env)
        return p.returncode, (p.stdout + p.stderr).decode("utf-8", "replace")
    except subprocess.TimeoutExpired as e:
        out = (e.stdout or b"") + (e.stderr or b"")
        return 124, out.decode("utf-8", "replace") + "\n[timeout]"

def seed():
    try: return int(os.environ.get("VERIF_SEED", "1"))
    except ValueError: return 1

# ---------------------------------------------------------------- regen + coq
def regen():
    rc, out = sh([sys.executable, os.path.join(VERIF, "tools", "regen.py")], timeout=300)
    return rc == 0, out

def coq_makefile():
    mk = os.path.join(COQ, "Makefile")
    proj = os.path.join(COQ, "_CoqProject")
    if not os.path.exists(mk) or os.path.getmtime(mk) < os.path.getmtime(proj):
        sh("coq_makefile -f _CoqProject -o Makefile", cwd=COQ)

def coq_build(targets, timeout=1500):
    """make the given .vo targets (and what they depend on); returns (ok, log)"""
    coq_makefile()
    rc, out = sh(["make", "-k", "-j%d" % NCPU] + targets, cwd=COQ, timeout=timeout)
    return rc == 0, out

FORBIDDEN = re.compile(r"\b(Admitted|admit|Axiom|Parameter|Conjecture|Unset Guard|bypass_check|type-in-type|impredicative-set|Admit Obligations)\b")
def hygiene():
    """forbidden words anywhere in the development (comments stripped naively)"""
    bad = []
    for f in sorted(glob.glob(os.path.join(COQ, "*", "*.v")) + glob.glob(os.path.join(COQ, "*.v"))):
        txt = open(f).read()
        txt = re.sub(r"\(\*.*?\*\)", "", txt, flags=re.S)
        for m in FORBIDDEN.finditer(txt):
            bad.append("%s: %s" % (os.path.relpath(f, COQ), m.group(0)))
    for l in open(os.path.join(COQ, "_CoqProject")):
        if "type-in-type" in l or "impredicative" in l: bad.append("_CoqProject: " + l.strip())
    return bad

ALLOWED_AXIOMS = set()   # the development needs none; extended per property only with stdlib axioms named in DESIGN.md
def theorems_of(propfile):
    txt = open(os.path.join(COQ, "Props", propfile + ".v")).read()
    return re.findall(r"^(?:Theorem|Lemma|Corollary)\s+([A-Za-z0-9_']+)", txt, flags=re.M)

def assumptions(propfile):
    """returns {theorem: 'closed' | [axioms]} by asking coqtop after the .vo is built"""
    thms = theorems_of(propfile)
    script = "From MSP Require Import Props.%s.\n" % propfile
    for t in thms:
        script += 'Goal True. idtac "@@BEGIN %s". Abort.\nPrint Assumptions %s.\nGoal True. idtac "@@END". Abort.\n' % (t, t)
    fd, path = tempfile.mkstemp(suffix=".v", prefix="asm_"); os.write(fd, script.encode()); os.close(fd)
    rc, out = sh(["coqc", "-Q", COQ, "MSP", path], timeout=600)
    for ext in ("", "o", "ok", "os"):
        try: os.remove(path[:-2] + ".v" + ext if ext else path)
        except OSError: pass
    for extra in (path[:-2] + ".glob", os.path.join(os.path.dirname(path), "." + os.path.basename(path)[:-2] + ".aux")):
        try: os.remove(extra)
        except OSError: pass
    res = {}
    for t in thms:
        m = re.search(r"@@BEGIN %s\n(.*?)@@END" % re.escape(t), out, flags=re.S)
        if not m: res[t] = ["<no output: %s>" % out[-300:]]; continue
        body = m.group(1).strip()
        if body.startswith("Closed under the global context"): res[t] = "closed"
        else:
            ax = re.findall(r"^([A-Za-z0-9_.']+)\s*:", body, flags=re.M)
            res[t] = ax or [body[:200]]
    return res

# ---------------------------------------------------------------- model driver (extracted OCaml)
def build_model_drv():
    """extract + compile the OCaml model driver; returns (ok, log, path)"""
    odir = os.path.join(VERIF, "ocaml"); exe = os.path.join(odir, "model_drv")
    ext_v = os.path.join(COQ, "Extract.v")
    ok, log = coq_build(["Extract.vo"])
    if not ok: return False, log, exe
    src = [os.path.join(odir, "drv.ml"), os.path.join(COQ, "Extract.vo")]
    if os.path.exists(exe) and all(os.path.getmtime(exe) >= os.path.getmtime(s) for s in src): return True, "", exe
    # Extract.v writes model.ml / model.mli into coq/ (cwd of coqc); move them
    for f in ("model.ml", "model.mli"):
        p = os.path.join(COQ, f)
        if not os.path.exists(p): return False, "extraction output %s missing" % f, exe
        shutil.copy(p, os.path.join(odir, f))
    rc, out = sh("ocamlfind ocamlopt -O3 -unboxed-types 2>/dev/null; ocamlfind ocamlopt -w -a -o model_drv model.mli model.ml drv.ml", cwd=odir, timeout=900)
    return rc == 0 and os.path.exists(exe), out, exe

# ---------------------------------------------------------------- C harness
def _hash_sources(extra):
    h = hashlib.sha256()
    for f in sorted(glob.glob(os.path.join(MSPACK, "*.[ch]")) + glob.glob(os.path.join(VERIF, "harness", "*.[ch]")) + [os.path.join(VERIF, "harness", "features.txt")]):
        h.update(f.encode()); h.update(open(f, "rb").read())
    h.update(extra.encode())
    return h.hexdigest()[:20]

SAN = "-fsanitize=address,bounds,null,pointer-overflow,shift-exponent,integer-divide-by-zero,object-size,return,unreachable,vla-bound -fno-sanitize-recover=all"
VARIANTS = {
    "asan":  ("gcc", "-O1 -g -fno-omit-frame-pointer " + SAN, ""),
    "plain": ("gcc", "-O1 -g", ""),
    "cov":   ("gcc", "-O1 -g", "-fsanitize-coverage=trace-pc"),
    "msan":  ("clang", "-O1 -g -fsanitize=memory -fsanitize-memory-track-origins=0 -fno-omit-frame-pointer", ""),
}
LIBUNITS = ["cabd", "chmd", "szddd", "kwajd", "oabd", "lzxd", "qtmd", "mszipd", "lzssd", "system", "crc32"]
def build_impl(variant="asan"):
    """build harness + library from REPO's working tree; cached by content hash. returns (ok, log, exe)"""
    cc, flags, libflags = VARIANTS[variant]
    feats = open(os.path.join(VERIF, "harness", "features.txt")).read().split()
    key = _hash_sources(variant + cc + flags + libflags)
    d = os.path.join(CACHE, "impl-%s-%s" % (variant, key)); exe = os.path.join(d, "impl_drv")
    if os.path.exists(exe): return True, "", exe
    os.makedirs(d, exist_ok=True)
    H = os.path.join(VERIF, "harness")
    cmds = []
    for u in LIBUNITS:
        cmds.append([cc] + flags.split() + libflags.split() + feats + ["-I", MSPACK, "-I", H, "-w", "-c", os.path.join(H, "w_%s.c" % u), "-o", os.path.join(d, "w_%s.o" % u)])
    for u in ("sysmon", "scn", "units", "main", "cov"):
        cmds.append([cc] + flags.split() + feats + ["-I", MSPACK, "-I", H, "-c", os.path.join(H, u + ".c"), "-o", os.path.join(d, u + ".o")])
    procs = [subprocess.Popen(c, stdout=subprocess.PIPE, stderr=subprocess.STDOUT) for c in cmds]
    log = ""
    ok = True
    for p in procs:
        o, _ = p.communicate(); log += o.decode("utf-8", "replace"); ok = ok and p.returncode == 0
    if ok:
        rc, o = sh([cc] + flags.split() + ["-o", exe + ".tmp"] + sorted(glob.glob(os.path.join(d, "*.o"))))
        log += o; ok = rc == 0
        if ok: os.rename(exe + ".tmp", exe)
    if not ok:
        shutil.rmtree(d, ignore_errors=True)
    # prune old cache entries of this variant
    olds = sorted(glob.glob(os.path.join(CACHE, "impl-%s-*" % variant)), key=os.path.getmtime)
    for o in olds[:-3]: shutil.rmtree(o, ignore_errors=True)
    return ok, log, exe

def build_cabx():
    """cabextract.c wrapped (harness/cabx.c) + the library, ASan/UBSan; returns (ok, log, exe)"""
    CX = os.path.join(REPO, "cabextract")
    h = hashlib.sha256()
    for f in sorted(glob.glob(os.path.join(MSPACK, "*.[ch]")) + glob.glob(os.path.join(CX, "src", "*.c")) + glob.glob(os.path.join(CX, "*.[ch]")) + [os.path.join(VERIF, "harness", "cabx.c")]):
        h.update(f.encode()); h.update(open(f, "rb").read())
    d = os.path.join(CACHE, "cabx-" + h.hexdigest()[:20]); exe = os.path.join(d, "cabx_drv")
    if os.path.exists(exe): return True, "", exe
    os.makedirs(d, exist_ok=True)
    feats = open(os.path.join(VERIF, "harness", "features.txt")).read().split()
    cfg = ["-DHAVE_CONFIG_H"] if os.path.exists(os.path.join(CX, "config.h")) else ["-DHAVE_TOWLOWER=1", "-DHAVE_WCTYPE_H=1", "-DHAVE_UTIME=1", "-DHAVE_UTIME_H=1", "-DHAVE_MKDIR=1", "-DHAVE_UMASK=1", "-DHAVE_FNMATCH_H=1", "-DHAVE_GETOPT_H=1", "-DHAVE_STRCASECMP=1", "-DHAVE_STRINGS_H=1", "-DHAVE_SYS_STAT_H=1", "-DHAVE_SYS_TYPES_H=1", "-DHAVE_DIRENT_H=1", '-DVERSION="x"'] + feats
    srcs = [os.path.join(VERIF, "harness", "cabx.c"), os.path.join(CX, "md5.c")] + [os.path.join(MSPACK, u + ".c") for u in ("system", "cabd", "lzxd", "mszipd", "qtmd")]
    cmd = ["gcc", "-O1", "-g", "-w"] + SAN.split() + cfg + ["-I", CX, "-I", os.path.join(CX, "mspack"), "-I", MSPACK, "-o", exe] + srcs
    rc, out = sh(cmd, timeout=300)
    if rc != 0: shutil.rmtree(d, ignore_errors=True)
    for o in sorted(glob.glob(os.path.join(CACHE, "cabx-*")), key=os.path.getmtime)[:-2]: shutil.rmtree(o, ignore_errors=True)
    return rc == 0, out, exe

def build_cabextract():
    """the cabextract binary from REPO's working tree (gcc directly, config.h of the configured tree); returns (ok, log, exe)"""
    CX = os.path.join(REPO, "cabextract")
    h = hashlib.sha256()
    for f in sorted(glob.glob(os.path.join(MSPACK, "*.[ch]")) + glob.glob(os.path.join(CX, "src", "*.c")) + glob.glob(os.path.join(CX, "*.[ch]"))):
        h.update(f.encode()); h.update(open(f, "rb").read())
    d = os.path.join(CACHE, "cabextract-" + h.hexdigest()[:20]); exe = os.path.join(d, "cabextract")
    if os.path.exists(exe): return True, "", exe
    os.makedirs(d, exist_ok=True)
    srcs = [os.path.join(CX, "src", "cabextract.c"), os.path.join(CX, "md5.c")] + [os.path.join(MSPACK, u + ".c") for u in ("system", "cabd", "lzxd", "mszipd", "qtmd")]
    cmd = ["gcc", "-O1", "-g", "-w", "-DHAVE_CONFIG_H", "-DMSPACK_NO_DEFAULT_SYSTEM", "-I", CX, "-I", os.path.join(CX, "mspack"), "-I", MSPACK, "-o", exe] + srcs
    rc, out = sh(cmd, timeout=300)
    if rc != 0: shutil.rmtree(d, ignore_errors=True)
    for o in sorted(glob.glob(os.path.join(CACHE, "cabextract-*")), key=os.path.getmtime)[:-2]: shutil.rmtree(o, ignore_errors=True)
    return rc == 0, out, exe

ASAN_ENV = dict(os.environ, ASAN_OPTIONS="detect_leaks=0:abort_on_error=0:exitcode=86:allocator_may_return_null=1", UBSAN_OPTIONS="print_stacktrace=1:halt_on_error=1:exitcode=87", MSAN_OPTIONS="exitcode=88")

def _big_stack():
    """the extracted model recurses (non-tail) over lists as long as its inputs: give the driver a deep stack"""
    import resource
    try:
        soft, hard = resource.getrlimit(resource.RLIMIT_STACK)
        want = 4 << 30
        resource.setrlimit(resource.RLIMIT_STACK, (want if hard == resource.RLIM_INFINITY else min(want, hard), hard))
    except Exception:
        pass

def _run_lines1(exe, args, lines, timeout):
    inp = ("\n".join(lines) + "\n").encode()
    try:
        p = subprocess.run([exe] + args, input=inp, capture_output=True, timeout=timeout, env=ASAN_ENV,
                           preexec_fn=_big_stack if os.path.basename(exe) == "model_drv" else None)
        return p.returncode, p.stdout.decode("utf-8", "replace").split("\n")[:-1], p.stderr.decode("utf-8", "replace")
    except subprocess.TimeoutExpired as e:
        return 124, (e.stdout or b"").decode("utf-8", "replace").split("\n"), "[timeout]"

def run_lines(exe, args, lines, timeout=600):
    """feed lines to a unit engine (one output line per input line), return (rc, list of output lines, raw stderr).
    The model driver is pure and line-by-line, so large batches for it are split over processes (the order of results is kept).
    A shard that fails makes the whole call fall back to one process, so crash positions are reported as before."""
    if len(lines) >= 24 and os.path.basename(exe) == "model_drv":
        import concurrent.futures
        k = min(16, os.cpu_count() or 4, len(lines) // 6)
        shards = [lines[i::k] for i in range(k)]
        with concurrent.futures.ThreadPoolExecutor(k) as ex:
            rs = list(ex.map(lambda sh: _run_lines1(exe, args, sh, timeout), shards))
        if all(r[0] == 0 and len(r[1]) == len(sh) for r, sh in zip(rs, shards)):
            out = [None] * len(lines)
            for j, (r, sh) in enumerate(zip(rs, shards)):
                for i, l in enumerate(r[1]): out[j + i * k] = l
            return 0, out, "".join(r[2] for r in rs)
    return _run_lines1(exe, args, lines, timeout)

def hexs(b): return bytes(b).hex() if len(b) else "-"

# ---------------------------------------------------------------- findings / evidence / reporting
def known_findings():
    p = os.path.join(VERIF, "known_findings.json")
    if not os.path.exists(p): return []
    return json.load(open(p)).get("findings", [])

class Result:
    """collects obligations, runs and violations for one property check"""
    def __init__(self, pid, tier):
        self.pid, self.tier, self.t0 = pid, tier, time.time()
        self.obligations = []      # (name, ok, detail)
        self.samples = []; self.evaluations = 0; self.nontrivial = set(); self.rule = ""
        self.traces = 0; self.violations = []   # (replay_path, text, found_input)
        self.known = []; self.extra = {}; self.assumptions = []; self.trusted = []
        self.dist = {}
    def oblige(self, name, ok, detail=""):
        self.obligations.append((name, bool(ok), detail))
    def count(self, key, n=1): self.dist[key] = self.dist.get(key, 0) + n
    def violation(self, text, replay_content, found_input=True, key=None):
        """key: classification used to match known_findings.json entries"""
        for kf in known_findings():
            if kf.get("property") == self.pid and kf.get("status") == "known" and key and kf.get("key") == key:
                msg = "KNOWN-FINDING: property=%s %s" % (self.pid, kf.get("what", key))
                if msg not in self.known: self.known.append(msg)
                return False
        os.makedirs(os.path.join(EVID, "replays"), exist_ok=True)
        h = hashlib.sha256(replay_content.encode()).hexdigest()[:12]
        path = os.path.join(EVID, "replays", "%s-%s.txt" % (self.pid, h))
        open(path, "w").write(replay_content)
        self.violations.append((path, text, found_input))
        return True
    def finish(self, level="proof", checker_cmd="", explanation=""):
        nob = len(self.obligations); ndis = sum(1 for o in self.obligations if o[1])
        for n, okk, d in self.obligations:
            if not okk: print("# UNDISCHARGED obligation: %s [%s]" % (n, d.replace("\n", " ")[:300]))
        if ndis != nob and not self.violations:
            # an obligation that does not check means the property is no longer shown to hold
            self.violation("obligation(s) not discharged: " + "; ".join(n for n, okk, _ in self.obligations if not okk)[:300],
                           "property %s: undischarged obligations\n%s\n" % (self.pid, "\n".join("%s [%s]" % (n, d) for n, okk, d in self.obligations if not okk)), found_input=False)
        cov = {"obligations": max(nob, 1), "discharged": ndis, "checker_cmd": checker_cmd or "make -C /verif/coq Props/Properties_%s.vo && coqc Print Assumptions (tools/check)" % self.pid,
               "trusted_base": self.trusted, "evaluations": self.evaluations, "distinct_nontrivial": len(self.nontrivial),
               "rule": self.rule, "samples": self.samples[:6] or ["(none)"], "traces_validated_against_impl": self.traces,
               "obligation_list": [{"name": n, "discharged": ok, "detail": d[:300]} for n, ok, d in self.obligations],
               "input_distribution": self.dist, "explanation": explanation}
        cov.update(self.extra)
        ev = {"property_id": self.pid, "tier": self.tier, "seed": seed(), "level": level, "coverage": cov,
              "assumptions": self.assumptions, "wall_s": round(time.time() - self.t0, 2), "violations": len(self.violations)}
        os.makedirs(EVID, exist_ok=True)
        json.dump(ev, open(os.path.join(EVID, self.pid + ".json"), "w"), indent=1)
        for k in self.known: print(k)
        for path, text, found in self.violations:
            print("# " + text.replace("\n", " ")[:400])
            print("VIOLATION property=%s replay=%s%s" % (self.pid, path, "" if found else " no-failing-input-found"))
        sys.stdout.flush()
        return 1 if self.violations else 0

TRUSTED_COMMON = [
    "Coq 8.16.1 kernel (coqc); vm_compute used for finite sweeps and Examples; no native_compute",
    "axioms: none declared by the development; Print Assumptions of every property theorem must be 'Closed under the global context' (checked on every run)",
    "tools/regen.py (C programs that #include the real sources and print tables/constants; gcc as the parser)",
    "extraction: ExtrOcamlBasic only (Extract Inductive bool/option/unit/list/prod/sumbool/sumor), no Extract Constant; OCaml 4.13.1; hand-written driver ocaml/drv.ml",
    "C harness /verif/harness (instrumented mspack_system, scenario runner), gcc 12 / clang 14 and their sanitizers",
    "hand-written Gallina model validated (not verified) against the C by differential execution on the inputs counted in this file",
]

def coq_gate(res, propfile, extra_targets=()):
    """regen, build property file, check assumptions and hygiene; records obligations. returns True when all proofs check."""
    ok, out = regen()
    if not ok: ok, out = regen()      # one retry (transient compiler/tmp failures must not look like a broken proof)
    res.oblige("regen: constants and tables regenerated from %s" % REPO, ok, out[-400:] if not ok else "")
    ok, log = coq_build(["Props/%s.vo" % propfile] + list(extra_targets))
    if not ok:
        errs = re.findall(r'File "([^"]+)", line (\d+).*?\n(Error:.*?)(?:\n\n|\Z)', log, flags=re.S)
        detail = "; ".join("%s:%s %s" % (f, l, e.replace("\n", " ")[:160]) for f, l, e in errs[:4]) or log[-600:]
        res.oblige("coq build of Props/%s.vo" % propfile, False, detail)
        return False
    asm = assumptions(propfile)
    allok = True
    for t, a in asm.items():
        good = a == "closed" or all(x in ALLOWED_AXIOMS for x in a)
        res.oblige("theorem %s (Print Assumptions: %s)" % (t, "Closed under the global context" if a == "closed" else ",".join(a)), good)
        allok = allok and good
    if not asm:
        res.oblige("property file has theorems", False); allok = False
    bad = hygiene()
    res.oblige("hygiene: no Admitted/admit/Axiom/Parameter/Conjecture/guard switches in the development", not bad, "; ".join(bad[:5]))
    return allok and not bad
