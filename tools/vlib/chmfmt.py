"""CHM builder (ITSF v1-3, PMGL/PMGI directory with quick-ref areas, LZX content section with ControlData/ResetTable/SpanInfo)."""
import struct
from . import lzxenc

GUIDS = bytes([0x10,0xFD,0x01,0x7C,0xAA,0x7B,0xD0,0x11,0x9E,0x0C,0x00,0xA0,0xC9,0x22,0xE6,0xEC,
               0x11,0xFD,0x01,0x7C,0xAA,0x7B,0xD0,0x11,0x9E,0x0C,0x00,0xA0,0xC9,0x22,0xE6,0xEC])
CONTENT = b"::DataSpace/Storage/MSCompressed/Content"
CONTROL = b"::DataSpace/Storage/MSCompressed/ControlData"
SPANINFO = b"::DataSpace/Storage/MSCompressed/SpanInfo"
RTABLE = b"::DataSpace/Storage/MSCompressed/Transform/{7FC28940-9D31-11D0-9B27-00A0C91E9C7C}/InstanceData/ResetTable"

def encint(v):
    out = [v & 0x7F]; v >>= 7
    while v: out.append(0x80 | (v & 0x7F)); v >>= 7
    return bytes(reversed(out))

def utf8_chars(b):
    """decode like GET_UTF8_CHAR (lenient)"""
    out = []; i = 0; n = len(b)
    while i < n:
        x = b[i]; i += 1
        if x < 0x80: c = x
        elif 0xC2 <= x < 0xE0 and i < n: c = (x & 0x1F) << 6 | (b[i] & 0x3F); i += 1
        elif 0xE0 <= x < 0xF0 and i + 1 < n: c = (x & 0x0F) << 12 | (b[i] & 0x3F) << 6 | (b[i+1] & 0x3F); i += 2
        elif 0xF0 <= x <= 0xF5 and i + 2 < n:
            c = (x & 7) << 18 | (b[i] & 0x3F) << 12 | (b[i+1] & 0x3F) << 6 | (b[i+2] & 0x3F); i += 3
            if c > 0x10FFFF: c = 0xFFFD
        else: c = 0xFFFD
        out.append(c)
    return out
def lower(c): return c + 32 if 65 <= c <= 90 else c
def sort_key(name): return ([lower(c) for c in utf8_chars(name)], len(name))

def _chunk(sig, hdr_rest, entries_bytes, chunk_size, density):
    """entries_bytes: list of encoded entries; returns chunk bytes or None if it does not fit"""
    qd = 1 + (1 << density)
    body = b""; offs = []
    for i, e in enumerate(entries_bytes):
        if i % qd == 0 and i > 0: offs.append(len(body))
        body += e
    qr = b"".join(struct.pack("<H", o) for o in reversed(offs)) + struct.pack("<H", len(entries_bytes))
    hdrlen = 8 + len(hdr_rest)
    free = chunk_size - hdrlen - len(body) - len(qr)
    if free < 0: return None
    qr_size = free + len(qr)
    return sig + struct.pack("<I", qr_size) + hdr_rest + body + bytes(free) + qr

def build_dir(entries, chunk_size, density, with_index=True, max_per_chunk=None, chain_rng=None, index_slot=None):
    """entries: list of (name, section, offset, length), will be sorted.  Returns (chunks bytes list, index_root, depth, first_pmgl, last_pmgl)"""
    ents = sorted(entries, key=lambda e: sort_key(e[0]))
    enc = [encint(len(n)) + n + encint(s) + encint(o) + encint(l) for (n, s, o, l) in ents]
    # greedy packing into PMGL chunks
    groups = []; cur = []
    for i, e in enumerate(enc):
        trial = cur + [e]
        if (max_per_chunk and len(trial) > max_per_chunk) or _chunk(b"PMGL", bytes(12), trial, chunk_size, density) is None:
            if not cur: raise ValueError("entry does not fit a chunk")
            groups.append(cur); cur = [e]
            if _chunk(b"PMGL", bytes(12), cur, chunk_size, density) is None: raise ValueError("entry does not fit a chunk")
        else: cur = trial
    groups.append(cur)
    npmgl = len(groups)
    chunks = [None] * npmgl
    firstnames = []; idx = 0
    # the listing chunks form a linked list that starts at chunk 0; the links need not follow the physical order of the chunks
    place = list(range(npmgl))
    if chain_rng is not None and npmgl > 2:
        rest = place[1:]
        while rest == place[1:]: chain_rng.shuffle(rest)
        place = [0] + rest
    for gi, g in enumerate(groups):
        prev = place[gi - 1] if gi > 0 else 0xFFFFFFFF; nxt = place[gi + 1] if gi + 1 < npmgl else 0xFFFFFFFF
        chunks[place[gi]] = _chunk(b"PMGL", struct.pack("<III", 0, prev, nxt), g, chunk_size, density)
        firstnames.append(ents[idx][0]); idx += len(g)
    index_root = 0xFFFFFFFF; depth = 1
    if index_slot is not None and with_index and npmgl > 1:
        # the (single) index chunk lies physically between the listing chunks: chunk numbers, not positions, say what is what
        k = min(index_slot, npmgl - 1)
        place = [gi if gi < k else gi + 1 for gi in range(npmgl)]
        chunks = [None] * (npmgl + 1)
        for gi, g in enumerate(groups):
            prev = place[gi - 1] if gi > 0 else 0xFFFFFFFF; nxt = place[gi + 1] if gi + 1 < npmgl else 0xFFFFFFFF
            chunks[place[gi]] = _chunk(b"PMGL", struct.pack("<III", 0, prev, nxt), g, chunk_size, density)
        ienc = [encint(len(n_)) + n_ + encint(c_) for (n_, c_) in zip(firstnames, place)]
        root = _chunk(b"PMGI", b"", ienc, chunk_size, density)
        if root is None: raise ValueError("index does not fit one chunk")
        chunks[k] = root
        return chunks, k, 2, 0, npmgl
    if with_index and npmgl > 1:
        level = list(zip(firstnames, place))
        while True:
            ienc = [encint(len(n)) + n + encint(c) for (n, c) in level]
            igroups = []; cur = []
            for e in ienc:
                trial = cur + [e]
                if _chunk(b"PMGI", b"", trial, chunk_size, density) is None:
                    if not cur: raise ValueError("index entry does not fit a chunk")
                    igroups.append(cur); cur = [e]
                    if _chunk(b"PMGI", b"", cur, chunk_size, density) is None: raise ValueError("index entry does not fit a chunk")
                else: cur = trial
            igroups.append(cur)
            if len(igroups) >= len(level): raise ValueError("index does not shrink (chunk too small for two index entries)")
            newlevel = []; k = 0
            for g in igroups:
                cn = len(chunks); chunks.append(_chunk(b"PMGI", b"", g, chunk_size, density))
                newlevel.append((level[k][0], cn)); k += len(g)
            depth += 1
            if len(newlevel) == 1: index_root = newlevel[0][1]; break
            level = newlevel
    return chunks, index_root, depth, 0, npmgl - 1

def build(files0, files1=(), rng=None, version=3, chunk_size=4096, density=2, with_index=True, wbits=16, reset_frames=2,
          rt_entry_size=8, with_rtable=True, with_spaninfo=True, control_version=2, lang=0x409, max_per_chunk=None, dirs=(), pad_to_reset=True, content_last=True, lzx_match_p=0.5, rt_slack=0, gaps=(0, 0, 0), rt_keep=None, extra_entries=(), overlong_last=0, lzx_btypes=None, chain_rng=None, sys_len=None, index_slot=None):
    """sys_len: {system file name: length declared in the directory} (the data stay as they are).
    files0: [(name, data)] stored uncompressed; files1: [(name, length)] stored in the LZX section (content drawn by the generator).
    returns (chm bytes, expected {name: (section, offset, length, data)})"""
    sec0 = b""; entries = []; expect = {}
    for name, data in files0:
        entries.append((name, 0, len(sec0) if len(data) else 0, len(data))); expect[name] = (0, len(sec0) if len(data) else 0, len(data), data); sec0 += data
    for d in dirs: entries.append((d, 0, 0, 0))
    for (nm_, sec_, off_, len_) in extra_entries:      # directory entries that are only declared (their data lies beyond the file): listing and lookup see them
        entries.append((nm_, sec_, off_, len_)); expect[nm_] = (sec_, off_, len_, None)
    if files1:
        total = sum(l for _, l in files1)
        # real CHM streams encode the data padded up to the next reset interval (the reset table's length is the unpadded one)
        ri = reset_frames * 32768
        # (without a reset table the library takes the true length from SpanInfo and sizes the last frame by it: no padding then)
        padded = (total + ri - 1) // ri * ri if (pad_to_reset and with_rtable) else total
        cuts = []
        stream, plain = lzxenc.encode(rng, wbits, padded, reset_interval=reset_frames, cuts=cuts, match_p=lzx_match_p, btypes=lzx_btypes)
        total_padded = padded
        off = 0
        for k_, (name, ln) in enumerate(files1):
            dl = ln + (overlong_last if (overlong_last and k_ == len(files1) - 1) else 0)      # the last member may be declared longer than the section holds
            entries.append((name, 1, off if ln else 0, dl)); expect[name] = (1, off if ln else 0, dl, plain[off:off + ln]); off += ln
        nfr = (total_padded + 32767) // 32768
        frame_offs = [0] + cuts
        if len(frame_offs) != max(nfr, 1): raise ValueError("frame bookkeeping")
        if rt_keep is not None: frame_offs = frame_offs[:max(rt_keep, 1)]      # a reset table that covers only the first frames (SpanInfo still gives the length)
        wsize = 1 << wbits
        if control_version == 2: control = struct.pack("<I4sIIIII", 6, b"LZXC", 2, reset_frames, wsize // 32768, 0, 0)
        else: control = struct.pack("<I4sIIIII", 6, b"LZXC", 1, reset_frames * 32768, wsize, 0, 0)
        # the entries need not follow the header directly: the TableOffset field says where they start
        rt = struct.pack("<IIIIQQQ", 2, len(frame_offs), rt_entry_size, 0x28 + rt_slack, total, len(stream), 0x8000) + bytes(rng.choice([0, 0, 255]) for _ in range(rt_slack))
        rt += b"".join(struct.pack("<Q" if rt_entry_size == 8 else "<I", o) for o in frame_offs)
        span = struct.pack("<Q", total)
        sysf = [(CONTROL, control)]
        if with_rtable: sysf.append((RTABLE, rt))
        if with_spaninfo: sysf.append((SPANINFO, span))
        if content_last: sysf.append((CONTENT, stream))
        else: sysf.insert(1, (CONTENT, stream))
        for name, data in sysf:
            entries.append((name, 0, len(sec0), (sys_len or {}).get(name, len(data)))); expect[name] = (0, len(sec0), len(data), data); sec0 += data
    chunks, index_root, depth, first, last = build_dir(entries, chunk_size, density, with_index, max_per_chunk, chain_rng, index_slot)
    hs1 = struct.pack("<4sIIIIIIIIIiII", b"ITSP", 1, 0x54, 0x0A, chunk_size, density, depth, index_root, first, last, -1, len(chunks), lang) + GUIDS[:16] + struct.pack("<Iiii", 0x54, -1, -1, -1)
    dirbytes = hs1 + b"".join(chunks)
    hdrlen = 0x38 + (0x28 if version >= 3 else 0x20)
    # the header says where its two sections and (version 3) the content start: they need not be packed back to back
    g0, g1, g2 = gaps
    if version < 3: g2 = 0          # before version 3 the content follows the last chunk by definition
    off_hs0 = hdrlen + g0; off_hs1 = off_hs0 + 0x18 + g1; off_cs0 = off_hs1 + len(dirbytes) + g2
    flen = off_cs0 + len(sec0)
    head = struct.pack("<4sIIIII", b"ITSF", version, hdrlen + 0x18, 1, 0x12345678, lang) + GUIDS
    hst = struct.pack("<QQQQ", off_hs0, 0x18, off_hs1, len(dirbytes)) + (struct.pack("<Q", off_cs0) if version >= 3 else b"")
    hs0 = struct.pack("<IIQII", 0x1FE, 0, flen, 0, 0)
    junk = lambda n: bytes(rng.randrange(256) for _ in range(n))
    return head + hst + junk(g0) + hs0 + junk(g1) + dirbytes + junk(g2) + sec0, expect
