"""OAB (full file) and OAB patch builders."""
import struct, zlib
from . import lzxenc

def regcrc(data): return (zlib.crc32(data) ^ 0xFFFFFFFF) & 0xFFFFFFFF

def wbits_full(dsize):
    w = 17
    while w < 25 and (1 << w) < dsize: w += 1
    return w
def wbits_patch(ssize, dsize):
    ws = ((ssize + 32767) & ~32767) + dsize; w = 17
    while w < 25 and (1 << w) < ws: w += 1
    return w

def build_full(rng, block_sizes, kinds=None, pad=None, block_max=None, pad_fn=None, btypes=None):
    """block_sizes: uncompressed size of each block; kinds[i] in {0 stored, 1 lzx}.  returns (oab bytes, plaintext)"""
    plain = b""; body = b""
    for i, ds in enumerate(block_sizes):
        kind = kinds[i] if kinds else rng.choice([0, 1, 1])
        if kind == 0 or ds == 0:
            d = bytes(rng.randrange(256) for _ in range(ds))
            body += struct.pack("<IIII", 0, ds, ds, rng.randrange(1 << 32)) + d; plain += d
        else:
            s, d = lzxenc.encode(rng, wbits_full(ds), ds, delta=True, btypes=btypes)
            p = bytes(rng.randrange(256) for _ in range(pad_fn(i, len(s)) if pad_fn else (pad[i] if pad else rng.choice([0, 0, 1, 7]))))
            body += struct.pack("<IIII", 1, len(s) + len(p), ds, regcrc(d)) + s + p; plain += d
    bm = block_max if block_max is not None else max(list(block_sizes) + [16])
    return struct.pack("<IIII", 3, 1, bm, len(plain)) + body, plain

def build_patch(rng, blocks, block_max=None, pad_fn=None, btypes=None, first_match=None):
    """blocks: list of (source size, target size).  returns (patch bytes, base bytes, target plaintext)"""
    base = b""; target = b""; body = b""
    for ss, ds in blocks:
        ref = bytes(rng.choice(b"abcdefghijklmnop") for _ in range(ss))
        s, d = lzxenc.encode(rng, wbits_patch(ss, ds), ds, delta=True, ref=ref, btypes=btypes, first_match=first_match)
        p = bytes(rng.randrange(256) for _ in range(pad_fn(len(s)))) if pad_fn else bytes(rng.choice([0, 0, 3]))
        body += struct.pack("<IIII", len(s) + len(p), ds, ss, regcrc(d)) + s + p
        base += ref; target += d
    bm = block_max if block_max is not None else max([max(a, b) for a, b in blocks] + [16])
    hdr = struct.pack("<IIIIIII", 3, 2, bm, len(base), len(target), regcrc(base), regcrc(target))
    return hdr + body, base, target
