"""Random LZX / LZX-DELTA stream generator (tokens -> bit stream + plaintext).  Tables are fixed copies of the
LZX specification's (NOT read from the repository, so that a changed C table shows up as a wrong decode)."""
import random, struct
POSBASE=[0, 1, 2, 3, 4, 6, 8, 12, 16, 24, 32, 48, 64, 96, 128, 192, 256, 384, 512, 768, 1024, 1536, 2048, 3072, 4096, 6144, 8192, 12288, 16384, 24576, 32768, 49152, 65536, 98304, 131072, 196608, 262144, 393216, 524288, 655360, 786432, 917504, 1048576, 1179648, 1310720, 1441792, 1572864, 1703936, 1835008, 1966080, 2097152, 2228224, 2359296, 2490368, 2621440, 2752512, 2883584, 3014656, 3145728, 3276800, 3407872, 3538944, 3670016, 3801088, 3932160, 4063232, 4194304, 4325376, 4456448, 4587520, 4718592, 4849664, 4980736, 5111808, 5242880, 5373952, 5505024, 5636096, 5767168, 5898240, 6029312, 6160384, 6291456, 6422528, 6553600, 6684672, 6815744, 6946816, 7077888, 7208960, 7340032, 7471104, 7602176, 7733248, 7864320, 7995392, 8126464, 8257536, 8388608, 8519680, 8650752, 8781824, 8912896, 9043968, 9175040, 9306112, 9437184, 9568256, 9699328, 9830400, 9961472, 10092544, 10223616, 10354688, 10485760, 10616832, 10747904, 10878976, 11010048, 11141120, 11272192, 11403264, 11534336, 11665408, 11796480, 11927552, 12058624, 12189696, 12320768, 12451840, 12582912, 12713984, 12845056, 12976128, 13107200, 13238272, 13369344, 13500416, 13631488, 13762560, 13893632, 14024704, 14155776, 14286848, 14417920, 14548992, 14680064, 14811136, 14942208, 15073280, 15204352, 15335424, 15466496, 15597568, 15728640, 15859712, 15990784, 16121856, 16252928, 16384000, 16515072, 16646144, 16777216, 16908288, 17039360, 17170432, 17301504, 17432576, 17563648, 17694720, 17825792, 17956864, 18087936, 18219008, 18350080, 18481152, 18612224, 18743296, 18874368, 19005440, 19136512, 19267584, 19398656, 19529728, 19660800, 19791872, 19922944, 20054016, 20185088, 20316160, 20447232, 20578304, 20709376, 20840448, 20971520, 21102592, 21233664, 21364736, 21495808, 21626880, 21757952, 21889024, 22020096, 22151168, 22282240, 22413312, 22544384, 22675456, 22806528, 22937600, 23068672, 23199744, 23330816, 23461888, 23592960, 23724032, 23855104, 23986176, 24117248, 24248320, 24379392, 24510464, 24641536, 24772608, 24903680, 25034752, 25165824, 25296896, 25427968, 25559040, 25690112, 25821184, 25952256, 26083328, 26214400, 26345472, 26476544, 26607616, 26738688, 26869760, 27000832, 27131904, 27262976, 27394048, 27525120, 27656192, 27787264, 27918336, 28049408, 28180480, 28311552, 28442624, 28573696, 28704768, 28835840, 28966912, 29097984, 29229056, 29360128, 29491200, 29622272, 29753344, 29884416, 30015488, 30146560, 30277632, 30408704, 30539776, 30670848, 30801920, 30932992, 31064064, 31195136, 31326208, 31457280, 31588352, 31719424, 31850496, 31981568, 32112640, 32243712, 32374784, 32505856, 32636928, 32768000, 32899072, 33030144, 33161216, 33292288, 33423360]
EXTRA=[0,0,0,0,1,1,2,2,3,3,4,4,5,5,6,6,7,7,8,8,9,9,10,10,11,11,12,12,13,13,14,14,15,15,16,16]
SLOTS=[30,32,34,36,38,42,50,66,98,162,290]
def extra_of(slot): return 17 if slot>=36 else EXTRA[slot]

class BitW:
    def __init__(s): s.out=bytearray(); s.acc=0; s.n=0
    def bits(s,v,n):
        for i in range(n-1,-1,-1):
            s.acc=(s.acc<<1)|((v>>i)&1); s.n+=1
            if s.n==16:
                s.out+=bytes([s.acc&255, s.acc>>8]); s.acc=0; s.n=0
    def align16(s):
        if s.n: s.bits(0,16-s.n)
    def raw(s,b): assert s.n==0; s.out+=b

def rand_lens(rng, used, nsyms, maxlen):
    """complete prefix code over the symbols in `used` (>=1 symbol), lengths <= maxlen"""
    used=sorted(used)
    if len(used)==1:
        # single symbol: give it length 1 and a partner so the code is complete
        other=(used[0]+1)%nsyms; used=sorted(set(used+[other]))
    leaves=[0]
    while len(leaves)<len(used):
        cand=[i for i,l in enumerate(leaves) if l<maxlen]
        i=rng.choice(cand) if rng.random()<0.7 else max(cand,key=lambda j:-leaves[j])
        l=leaves.pop(i); leaves+=[l+1,l+1]
    rng.shuffle(leaves)
    lens=[0]*nsyms
    for s,l in zip(used,leaves): lens[s]=l
    return lens
def canon(lens):
    codes={}; code=0
    for l in range(1,17):
        for s,x in enumerate(lens):
            if x==l: codes[s]=(code,l); code+=1
        code<<=1
    return codes

def write_pretree_lens(bw, rng, newlens, oldlens, first, last):
    # choose pretree symbols for positions first..last-1
    syms=[]  # list of (sym, extra)
    x=first
    while x<last:
        run=1
        while x+run<last and newlens[x+run]==newlens[x] : run+=1
        if newlens[x]==0 and run>=20 and rng.random()<0.8:
            r=min(run,51); syms.append((18,r-20,None)); x+=r; continue
        if newlens[x]==0 and run>=4 and rng.random()<0.8:
            r=min(run,19); syms.append((17,r-4,None)); x+=r; continue
        if run>=4 and rng.random()<0.5:
            r=min(run,5)
            # code 19: all r entries get (old[x]-z) mod 17 where old is the CURRENT lens[x]
            z=(oldlens[x]-newlens[x])%17
            syms.append((19,r-4,z)); x+=r; continue
        z=(oldlens[x]-newlens[x])%17
        syms.append((z,None,None)); x+=1
    used=set()
    for s,e,z in syms:
        used.add(s)
        if s==19: used.add(z)
    pl=rand_lens(rng, used, 20, 15)
    for l in pl: bw.bits(l,4)
    pc=canon(pl)
    for s,e,z in syms:
        c,l=pc[s]; bw.bits(c,l)
        if s==17: bw.bits(e,4)
        elif s==18: bw.bits(e,5)
        elif s==19:
            bw.bits(e,1); c2,l2=pc[z]; bw.bits(c2,l2)

STATS={'pad16':0}
def encode(rng, wbits, total, delta=False, ref=b'', e8=False, reset_interval=0, cuts=None, match_p=0.5, early=False, btypes=None, first_match=None):
    """first_match=(offset, length): the first token of the stream is this match (LZX DELTA: it starts in the reference data).
    returns (stream bytes, plaintext before E8 postprocessing is irrelevant: we only diff decoders)"""
    wsize=1<<wbits; nslots=SLOTS[wbits-15]; nmain=256+nslots*8
    bw=BitW(); data=bytearray(); R=[1,1,1]; hostile_done=False
    # Intel E8 translation leaves the last 10 bytes of a frame alone: put CALL opcodes with small operands right around that limit
    forced={}
    if e8:
        import struct as _st
        ends=[fe_ for fe_ in range(32768,total+1,32768)]+([total] if total%32768 else [])
        for fe_ in ends:
            base=fe_-rng.choice([10,10,10,11,9,12,14])
            if base<0 or base+5>total or any((base+k) in forced for k in range(-5,6)): continue
            forced[base]=0xE8
            for k,bv in enumerate(_st.pack('<i',rng.choice([0,1,-1,5,100,-base,rng.randrange(-70000,70000)]))): forced[base+1+k]=bv
    fpos=sorted(forced)
    main_old=[0]*(2576+64); len_old=[0]*(250+64)
    pos=0; header_done=False
    blocks_left=0; btype=0; cur=None
    frame_start=0
    while pos<total or (total==0 and not header_done):
        # frame boundary handling is done inside loops below
        if reset_interval and (pos//32768)%reset_interval==0 and pos%32768==0 and pos>0:
            # new reset interval: state reset; header re-read
            main_old=[0]*(2576+64); len_old=[0]*(250+64); R=[1,1,1]; header_done=False
        if delta and pos%32768==0:
            bw.bits(rng.randrange(65536),16)
        if not header_done:
            if e8: bw.bits(1,1); fs=rng.choice([total, 12345678, 100]); bw.bits(fs>>16,16); bw.bits(fs&65535,16)
            else: bw.bits(0,1)
            header_done=True
            if total==0: break
        # one block: choose size (may span frames)
        bsize=min(total-pos, rng.choice([1,2,7,100,1000,5000,32768,40000,70000]))
        if reset_interval:       # blocks end at reset boundaries; no match reaches before the last reset point
            rb=(pos//(32768*reset_interval))*32768*reset_interval; bsize=min(bsize, rb+32768*reset_interval-pos)
        else: rb=0
        btype=rng.choice(btypes or [1,1,2,2,3])
        if first_match and pos==0 and total>=2:
            bsize=min(total, max(bsize, first_match[1])); btype=rng.choice([b for b in (btypes or [1,2]) if b!=3] or [1])
        # pre-generate tokens for this block so that trees cover the used symbols
        toks=[]; p=pos; bend=pos+bsize; r=list(R)
        if btype==3:
            pass
        else:
            while p<bend:
                fe=(p//32768+1)*32768; lim=min(bend,fe,total)
                maxoff=min(p+len(ref) if delta else p-rb, wsize-3)
                if early and p<6: maxoff=min(maxoff+rng.choice([1,2]), wsize-3)     # hostile: a match reaching before the first byte of the stream
                if first_match and p==0 and lim-p>=2 and 1<=first_match[0]<=maxoff:
                    off=first_match[0]; ml=max(2,min(first_match[1],257,lim-p)); fo=off+2; slot=max(i for i in range(nslots) if POSBASE[i]<=fo)
                    r=[off,r[0],r[1]]; toks.append(('M',ml,off,slot)); p+=ml; continue
                if p in forced:
                    toks.append(('L',forced[p])); p+=1; continue
                nf=next((q for q in fpos if q>p), None)
                if nf is not None: lim=min(lim,nf)
                hostile2 = early==2 and p>=32768 and not hostile_done and lim-p>=2 and p+1<=wsize-3
                if (maxoff>=1 and lim-p>=2 and rng.random()<match_p) or hostile2:
                    ml=rng.randint(2,min(257,lim-p)) if rng.random()<0.8 else min(257,lim-p)
                    if delta and ml==257 and lim-p>257+1 and rng.random()<0.6:
                        # LZX DELTA: extended match length in one of its four codings ('0'+8, '10'+10, '110'+12, '111'+15 bits)
                        room=lim-p-257
                        ext=rng.choice([rng.randint(1,255), rng.randint(256,1279), rng.randint(1280,5375), rng.randint(5376,32767), rng.randint(5376,6500), room])
                        ml=257+min(ext,room)
                    mode=rng.random()
                    if hostile2: mode=1.0; hostile_done=True
                    if mode<0.25 and r[0]<=maxoff: off=r[0]; slot=0
                    elif mode<0.35 and r[1]<=maxoff: off=r[1]; slot=1; r[0],r[1]=r[1],r[0]
                    elif mode<0.45 and r[2]<=maxoff: off=r[2]; slot=2; r[0],r[2]=r[2],r[0]
                    else:
                        off=rng.randint(1,maxoff) if rng.random()<0.7 else rng.choice([x for x in (1,2,3,maxoff,max(1,maxoff-1)) if x<=maxoff])
                        if hostile2 or (early==2 and 32768<=p<32768+200 and rng.random()<0.6):
                            # hostile: in a later frame, a match reaching beyond everything decoded so far (into window cells never written)
                            off=rng.randint(p+1, min(p+rng.choice([1,3,1000,30000]), wsize-3))
                        fo=off+2; slot=max(i for i in range(nslots) if POSBASE[i]<=fo)
                        if fo-POSBASE[slot] >= (1<<extra_of(slot)): 
                            toks.append(('L',rng.randrange(256))); p+=1; continue
                        r=[off,r[0],r[1]]
                    toks.append(('M',ml,off,slot)); p+=ml
                else:
                    toks.append(('L',rng.randrange(256) if rng.random()<0.9 else 0xE8)); p+=1
            bsize=p-pos  # may be shorter/equal
        bw.bits(btype,3); bw.bits(bsize>>8,16); bw.bits(bsize&255,8)
        if btype==3:
            if bw.n==0: STATS['pad16']+=1        # (the block header ended on a word boundary: a whole word of padding follows)
            bw.bits(0,16-bw.n if bw.n else 16)   # 1..16 bits of padding
            import struct
            R=[rng.choice([1,2,5,100]) for _ in range(3)]
            bw.raw(struct.pack('<III',*R))
            chunk=bytearray(rng.randrange(256) for _ in range(bsize))
            for q in fpos:
                if pos<=q<pos+bsize: chunk[q-pos]=forced[q]
            chunk=bytes(chunk)
            # raw copy: crosses frames freely, but frame realign requires bits empty (they are)
            if cuts is not None:
                fb=(pos//32768+1)*32768
                while fb<pos+bsize:
                    cuts.append(len(bw.out)+(fb-pos)); fb+=32768
            if delta:
                # LZX DELTA: a 16-bit chunk-size word opens every frame, also inside an uncompressed block
                fb=(pos//32768+1)*32768; a=0
                while fb<pos+bsize:
                    bw.raw(chunk[a:fb-pos]); bw.raw(bytes([rng.randrange(256),rng.randrange(256)])); a=fb-pos; fb+=32768
                bw.raw(chunk[a:])
            else:
                bw.raw(chunk)
            data+=chunk; pos+=bsize
            if cuts is not None and pos%32768==0 and pos<total: cuts.append(len(bw.out))
            at_reset = reset_interval and pos%(32768*reset_interval)==0
            if bsize&1 and pos<total and not at_reset: bw.raw(b'\x00')   # the decoder forgets the odd-length realign across a state reset
            elif bsize&1: pass
            continue
        # trees
        used_main=set(); used_len=set()
        for t in toks:
            if t[0]=='L': used_main.add(t[1])
            else:
                _,ml,off,slot=t; lh=min(ml-2,7); used_main.add(256+slot*8+lh)
                if lh==7: used_len.add(min(ml,257)-2-7)
        if not used_main: used_main.add(0)
        if btype==2:
            al=rand_lens(rng,set(range(8)),8,7)
            for l in al: bw.bits(l,3)
            ac=canon(al)
        ml_new=rand_lens(rng,used_main|set(rng.sample(range(nmain),rng.randint(0,20))),nmain,16)
        full=ml_new+[0]*(2576+64-nmain)
        write_pretree_lens(bw,rng,full,main_old,0,256)
        write_pretree_lens(bw,rng,full,main_old,256,nmain)
        main_old=full; mc=canon(ml_new)
        if used_len or rng.random()<0.5:
            ll_new=rand_lens(rng,used_len|set(rng.sample(range(249),rng.randint(1,10))),249,16)
        else: ll_new=[0]*249
        fulll=ll_new+[0]*(250+64-249)
        write_pretree_lens(bw,rng,fulll,len_old,0,249)
        len_old=fulll; lc=canon(ll_new)
        for t in toks:
            fe=(pos//32768+1)*32768
            if t[0]=='L':
                c,l=mc[t[1]]; bw.bits(c,l); data.append(t[1]); pos+=1
            else:
                _,ml,off,slot=t; lh=min(ml-2,7)
                c,l=mc[256+slot*8+lh]; bw.bits(c,l)
                if lh==7: c2,l2=lc[min(ml,257)-2-7]; bw.bits(c2,l2)
                if slot>=3:
                    ex=extra_of(slot); v=off+2-POSBASE[slot]
                    if btype==2 and ex>=3:
                        if ex>3: bw.bits(v>>3,ex-3)
                        c3,l3=ac[v&7]; bw.bits(c3,l3)
                    elif ex: bw.bits(v,ex)
                    R=[off,R[0],R[1]]
                elif slot==1: R[0],R[1]=R[1],R[0]
                elif slot==2: R[0],R[2]=R[2],R[0]
                if ml>=257 and delta:
                    ext=ml-257
                    if ext<256: bw.bits(0,1); bw.bits(ext,8)
                    elif ext<1280: bw.bits(2,2); bw.bits(ext-256,10)
                    elif ext<5376: bw.bits(6,3); bw.bits(ext-1280,12)
                    else: bw.bits(7,3); bw.bits(ext,15)
                for _ in range(ml):
                    srcpos=len(data)-off
                    data.append(data[srcpos] if srcpos>=0 else (ref[len(ref)+srcpos] if delta and len(ref)+srcpos>=0 else 0))
                pos+=ml
            if pos%32768==0 or pos==total:
                bw.align16()
                if delta and pos%32768==0 and pos<bend and pos<total: bw.bits(rng.randrange(65536),16)   # chunk-size word of a frame that starts inside this block
                if cuts is not None and pos%32768==0 and pos<total and (not cuts or cuts[-1]!=len(bw.out)): cuts.append(len(bw.out))
    bw.align16()
    return bytes(bw.out), bytes(data)
