"""Quantum encoder (adaptive arithmetic coder) used to build test inputs; tables are fixed copies."""
import random
POSBASE=[0,1,2,3,4,6,8,12,16,24,32,48,64,96,128,192,256,384,512,768,1024,1536,2048,3072,4096,6144,8192,12288,16384,24576,32768,49152,65536,98304,131072,196608,262144,393216,524288,786432,1048576,1572864]
EXTRA=[0,0,0,0,1,1,2,2,3,3,4,4,5,5,6,6,7,7,8,8,9,9,10,10,11,11,12,12,13,13,14,14,15,15,16,16,17,17,18,18,19,19]
LBASE=[0,1,2,3,4,5,6,8,10,12,14,18,22,26,30,38,46,54,62,78,94,110,126,158,190,222,254]
LEXTRA=[0,0,0,0,0,0,1,1,1,1,2,2,2,2,3,3,3,3,4,4,4,4,5,5,5,5,0]
class Model:
    def __init__(s,start,n):
        s.shifts=4; s.n=n; s.sym=[start+i for i in range(n+1)]; s.cum=[n-i for i in range(n+1)]
    def update(s):
        s.shifts-=1
        if s.shifts:
            for i in range(s.n-1,-1,-1):
                s.cum[i]>>=1
                if s.cum[i]<=s.cum[i+1]: s.cum[i]=s.cum[i+1]+1
        else:
            s.shifts=50
            for i in range(s.n):
                s.cum[i]=((s.cum[i]-s.cum[i+1])&0xffff)+1; s.cum[i]=(s.cum[i]&0xffff)>>1
            for i in range(s.n-1):
                for j in range(i+1,s.n):
                    if s.cum[i]<s.cum[j]:
                        s.cum[i],s.cum[j]=s.cum[j],s.cum[i]; s.sym[i],s.sym[j]=s.sym[j],s.sym[i]
            for i in range(s.n-1,-1,-1): s.cum[i]=(s.cum[i]+s.cum[i+1])&0xffff
class Enc:
    def __init__(s,wbits):
        i=wbits*2
        s.m=[Model(0,64),Model(64,64),Model(128,64),Model(192,64),Model(0,min(i,24)),Model(0,min(i,36)),Model(0,i),Model(0,27),Model(0,7)]
        s.out=bytearray(); s.wbits=wbits
    def start_frame(s):
        s.H=0xffff; s.L=0; s.under=0; s.abits=[]; s.shifts=0; s.raw=[]   # raw: (arith_index, [bits])
    def abit(s,b):
        s.abits.append(b)
        while s.under: s.abits.append(b^1); s.under-=1
    def sym(s,mi,symbol):
        m=s.m[mi]; idx=m.sym.index(symbol, 0, m.n)+1   # interval of syms[idx-1]
        rng=(s.H-s.L)+1; tot=m.cum[0]
        s.H=(s.L+(m.cum[idx-1]*rng)//tot-1)&0xffff; s.L=(s.L+(m.cum[idx]*rng)//tot)&0xffff
        for i in range(idx): m.cum[i]=(m.cum[i]+8)&0xffff
        if m.cum[0]>3800: m.update()
        while True:
            if (s.L&0x8000)!=(s.H&0x8000):
                if (s.L&0x4000) and not (s.H&0x4000):
                    s.under+=1; s.L&=0x3fff; s.H|=0x4000
                else: break
            else: s.abit(s.L>>15)
            s.L=(s.L<<1)&0xffff; s.H=((s.H<<1)|1)&0xffff; s.shifts+=1
    def rawbits(s,v,n):
        if n: s.raw.append((s.shifts+16,[(v>>i)&1 for i in range(n-1,-1,-1)]))
    def end_frame(s, trailer_zeros=0):
        # flush
        s.under+=1
        s.abit(1 if s.L>=0x4000 else 0)
        need=s.shifts+16+8
        while len(s.abits)<need: s.abits.append(0)
        # merge raw insertions
        bits=[]; ri=0; raw=sorted(s.raw,key=lambda x:x[0])
        for k,b in enumerate(s.abits):
            while ri<len(raw) and raw[ri][0]==k: bits+=raw[ri][1]; ri+=1
            bits.append(b)
        while ri<len(raw): bits+=raw[ri][1]; ri+=1
        # decoder position after the frame = 16 + shifts + rawcount ; cut everything after it, align to byte
        p=16+s.shifts+sum(len(r[1]) for r in s.raw)
        bits=bits[:p]
        while len(bits)%8: bits.append(0)
        by=bytearray()
        for i in range(0,len(bits),8):
            v=0
            for b in bits[i:i+8]: v=(v<<1)|b
            by.append(v)
        s.out+=by+bytes(trailer_zeros)+b'\xff'
def encode(rng,wbits,total,frames=None,early=False):
    """early=True: matches may reach before the first byte of the stream (hostile input: the decoder's window is not cleared)"""
    e=Enc(wbits); wsize=1<<wbits; data=bytearray(); pos=0
    while pos<total:
        e.start_frame(); fend=min(total,(pos//32768+1)*32768)
        while pos<fend:
            maxoff=min(pos,wsize-1) if not early else wsize-1
            room=fend-pos
            # matches may not straddle the window end either (decoder handles it but flush rules bite); keep simple
            if maxoff>=1 and room>=3 and rng.random()<0.45:
                kind=rng.choice([4,5,6]) if room>=5 else (rng.choice([4,5]) if room>=4 else 4)
                mi={4:4,5:5,6:6}[kind]; nslots=e.m[mi].n
                off=rng.randint(1,maxoff) if rng.random()<0.7 else rng.choice([1,2,maxoff])
                slot=max(i for i in range(nslots) if POSBASE[i]<=off-1)
                if off-1-POSBASE[slot]>=(1<<EXTRA[slot]):
                    b=rng.randrange(256); e.sym(8,b>>6); e.sym(b>>6,b); data.append(b); pos+=1; continue
                if kind==4: ml=3
                elif kind==5: ml=4
                else:
                    ml=rng.randint(5,min(259,room)); 
                wp=pos%wsize
                if wp+ml>wsize and rng.random()<0.7: ml=min(ml,wsize-wp); 
                if kind==6 and ml<5 or kind==5 and ml!=4 or kind==4 and ml!=3:
                    b=rng.randrange(256); e.sym(8,b>>6); e.sym(b>>6,b); data.append(b); pos+=1; continue
                e.sym(8,kind)
                if kind==6:
                    ls=max(i for i in range(27) if LBASE[i]<=ml-5)
                    if ml-5-LBASE[ls]>=(1<<LEXTRA[ls]) : ls=26 if ml-5==254 else ls
                    e.sym(7,ls); e.rawbits(ml-5-LBASE[ls],LEXTRA[ls])
                e.sym(mi,slot); e.rawbits(off-1-POSBASE[slot],EXTRA[slot])
                for _ in range(ml): data.append(data[len(data)-off] if len(data)-off>=0 else 0)
                pos+=ml
            else:
                b=rng.randrange(256) if rng.random()<0.5 else rng.choice([65,66,0,255])
                e.sym(8,b>>6); e.sym(b>>6,b); data.append(b); pos+=1
        n0=len(e.out); e.end_frame(rng.choice([0,0,1,3]))
        if frames is not None: frames.append(bytes(e.out[n0:-1]))
    if len(e.out)%2: e.out.append(0)
    return bytes(e.out), bytes(data)
