(* hand-written driver: line protocol, conversions between OCaml ints/hex and the extracted N *)
open Model
let rec pos_of_int n = if n = 1 then XH else if n land 1 = 0 then XO (pos_of_int (n lsr 1)) else XI (pos_of_int (n lsr 1))
let n_of_int n = if n = 0 then N0 else Npos (pos_of_int n)
let rec int_of_pos = function XH -> 1 | XO p -> 2 * int_of_pos p | XI p -> 2 * int_of_pos p + 1
let int_of_n = function N0 -> 0 | Npos p -> int_of_pos p
let rec nat_of_int n = if n = 0 then O else S (nat_of_int (n - 1))
let bytes_of_hex s = if s = "-" then [] else List.init (String.length s / 2) (fun i -> n_of_int (int_of_string ("0x" ^ String.sub s (2*i) 2)))
let hex_of_bytes l = let b = Buffer.create 256 in List.iter (fun x -> Buffer.add_string b (Printf.sprintf "%02x" (int_of_n x))) l; Buffer.contents b
let int_of_z = function Z0 -> 0 | Zpos p -> int_of_pos p | Zneg p -> - (int_of_pos p)
(* exact decimal printing (OCaml's native int has 63 bits: 64-bit header fields of damaged files do not fit) *)
let dec_of_pos p =
  let rec dbl l c = match l with [] -> if c = 0 then [] else [c] | d :: r -> let v = 2 * d + c in (v mod 10) :: dbl r (v / 10) in
  let rec go = function XH -> [1] | XO q -> dbl (go q) 0 | XI q -> dbl (go q) 1 in
  String.concat "" (List.rev_map string_of_int (go p))
let str_of_n = function N0 -> "0" | Npos p -> dec_of_pos p
let str_of_z = function Z0 -> "0" | Zpos p -> dec_of_pos p | Zneg p -> "-" ^ dec_of_pos p
let rec cstr_hex l = match l with [] -> "" | x :: r -> let v = int_of_n x in if v = 0 then "" else Printf.sprintf "%02x" v ^ cstr_hex r
let ints s = List.map int_of_string (String.split_on_char ',' s)

let () =
  let eng = Sys.argv.(1) in
  try while true do
    let line = input_line stdin in
    let t = List.filter (fun s -> s <> "") (String.split_on_char ' ' line) in
    (match eng, t with
     | "cksum", [seed; hex] -> Printf.printf "%d\n" (int_of_n (cksum (bytes_of_hex hex) (n_of_int (int_of_string seed))))
     | "lzssenc", mode :: toks ->
         let tk s = if s.[0] = 'L' then Lit (n_of_int (int_of_string (String.sub s 1 (String.length s - 1))))
                    else (match ints (String.sub s 1 (String.length s - 1)) with [p; l] -> Mat (n_of_int p, n_of_int l) | _ -> Lit N0) in
         let ts = List.map tk toks in
         let (e, x) = lzss_enc_expand (n_of_int (int_of_string mode)) ts in
         Printf.printf "%s %s %b\n" (if e = [] then "-" else hex_of_bytes e) (if x = [] then "-" else hex_of_bytes x) (List.for_all wf_tok ts)
     | "mszip", [_repair; reqs; hex] ->
         (* one request only in the current port *)
         let (st, out) = mszip_ideal (bytes_of_hex hex) (n_of_int (List.hd (ints reqs))) in
         Printf.printf "%d %s\n" (int_of_n st) (hex_of_bytes out)
     | "lzx", [wb; ri; ol; dl; rf; rq; hex] ->
         let (sts, out) = lzx_run (n_of_int (int_of_string wb)) (n_of_int (int_of_string ri)) (n_of_int (int_of_string ol)) (dl = "1")
                            (bytes_of_hex rf) (bytes_of_hex hex) (List.map n_of_int (ints rq)) in
         Printf.printf "%s %s\n" (String.concat "," (List.map (fun x -> string_of_int (int_of_n x)) sts)) (hex_of_bytes out)
     | "qtm", [wb; rq; hex] ->
         let (sts, out) = qtm_run (n_of_int (int_of_string wb)) (bytes_of_hex hex) (List.map n_of_int (ints rq)) in
         Printf.printf "%s %s\n" (String.concat "," (List.map (fun x -> string_of_int (int_of_n x)) sts)) (hex_of_bytes out)
     | "szddl2", [script; fl; hex] ->
         (* fl: "-" or k:i:m,k:i:m  (k: 0 open 1 read 2 write 3 seek 4 alloc) *)
         let faults = if fl = "-" then [] else List.map (fun t -> match List.map int_of_string (String.split_on_char ':' t) with
                        | [k; i; m] -> ((n_of_int k, n_of_int i), n_of_int m) | _ -> ((N0, N0), N0)) (String.split_on_char ',' fl) in
         let pr_ev tr = String.concat ";" (List.map (fun l -> String.concat " " (List.map (fun x -> string_of_int (int_of_n x)) l)) tr) in
         let pr_outs outs = String.concat "," (List.map (fun o -> if o = [] then "-" else hex_of_bytes o) outs) in
         if script = "A" then begin
           let (((e, le), tr), outs) = run_script_decompress (bytes_of_hex hex) faults in
           Printf.printf "%d,%d|%s|%s\n" (int_of_n e) (int_of_n le) (pr_ev tr) (pr_outs outs) end
         else begin
           let ((r, tr), outs) = run_script_open_extract (bytes_of_hex hex) faults in
           Printf.printf "%s|%s|%s\n" (String.concat "," (List.map (fun x -> string_of_int (int_of_n x)) r)) (pr_ev tr) (pr_outs outs) end
     | "kwajl2", [script; fl; hex] ->
         let faults = if fl = "-" then [] else List.map (fun t -> match List.map int_of_string (String.split_on_char ':' t) with
                        | [k; i; m] -> ((n_of_int k, n_of_int i), n_of_int m) | _ -> ((N0, N0), N0)) (String.split_on_char ',' fl) in
         let pr_ev tr = String.concat ";" (List.map (fun l -> String.concat " " (List.map (fun x -> string_of_int (int_of_n x)) l)) tr) in
         let pr_outs outs = String.concat "," (List.map (fun o -> if o = [] then "-" else hex_of_bytes o) outs) in
         let ints_s l = String.concat "," (List.map (fun x -> string_of_int (int_of_n x)) l) in
         if script = "A" then begin
           let (((e, le), tr), outs) = run_kscript_decompress (bytes_of_hex hex) faults in
           Printf.printf "%d,%d|%s|%s|\n" (int_of_n e) (int_of_n le) (pr_ev tr) (pr_outs outs) end
         else begin
           let (((r, hd), tr), outs) = run_kscript_open_extract (bytes_of_hex hex) faults in
           Printf.printf "%s|%s|%s|%s\n" (ints_s r) (pr_ev tr) (pr_outs outs) (ints_s hd) end
     | "find", [salv; offs; hex] ->
         let bytes = bytes_of_hex hex in
         let truth = if offs = "-" then [] else ints offs in
         let parse o = List.mem (int_of_n o) truth in
         (match cab_find bytes parse (salv = "1") (nat_of_int (List.length bytes + 2)) N0 [] with
          | Some l -> print_endline (String.concat "," (List.map (fun x -> string_of_int (int_of_n x)) l) ^ ".")
          | None -> print_endline "nofuel")
     | "outname", [lw; isunix; utf8; hex] ->
         (* the C library's towlower()/tolower() in the "C" locale: ASCII only *)
         let lower x = let v = int_of_n x in if v >= 65 && v <= 90 then n_of_int (v + 32) else x in
         let r = out_tail lower (lw = "1") (isunix = "1") (utf8 = "1") (bytes_of_hex hex) in
         print_endline (if r = [] then "-" else hex_of_bytes r)
     | "perm", [attr; umask; date; time] ->
         let p = perm_bits (n_of_int (int_of_string attr)) (n_of_int (int_of_string umask)) in
         let (((((s, mi), h), d), mo), y) = mtime_fields (n_of_int (int_of_string date)) (n_of_int (int_of_string time)) in
         Printf.printf "%d %d %d %d %d %d %d\n" (int_of_n p) (int_of_n s) (int_of_n mi) (int_of_n h) (int_of_n d) (int_of_n mo) (int_of_n y)
     | "chm", [entire; ops; hex] ->
         let op s = let a = String.sub s 1 (String.length s - 1) in
                    if s.[0] = 'x' then OpExtract (n_of_int (int_of_string a)) else if s.[0] = 'f' then OpFind (bytes_of_hex a) else OpFindExtract (bytes_of_hex a) in
         let ops = if ops = "-" then [] else List.map op (String.split_on_char ',' ops) in
         let ((e, r), res) = chm_session (bytes_of_hex hex) (entire = "1") ops in
         let b = Buffer.create 4096 in
         (match r with
          | None -> Buffer.add_string b (Printf.sprintf "E%d" (int_of_n e))
          | Some ((h, files), sysf) ->
            Buffer.add_string b (Printf.sprintf "H%d %d %d %s %d %d %d %d %d %d %d %s %s" (int_of_n e) (int_of_n h.h_version) (int_of_n h.h_language) (str_of_z h.h_length) (int_of_n h.h_num_chunks)
              (int_of_n h.h_chunk_size) (int_of_n h.h_density) (int_of_n h.h_depth) (int_of_n h.h_index_root) (int_of_n h.h_first_pmgl) (int_of_n h.h_last_pmgl)
              (str_of_z h.h_sec0_offset) (str_of_z h.h_dir_offset));
            let pe tag en = Buffer.add_string b (Printf.sprintf ";%s %s %d %s %s" tag (cstr_hex en.e_name) (int_of_n en.e_sec) (str_of_n en.e_off) (str_of_n en.e_len)) in
            List.iter (pe "F") files; List.iter (pe "S") sysf);
         List.iter (fun r -> match r with
           | RExtract (st, out) -> Buffer.add_string b (Printf.sprintf "#X %d %s" (int_of_n st) (hex_of_bytes out))
           | RFind (st, None) -> Buffer.add_string b (Printf.sprintf "#N %d none" (int_of_n st))
           | RFind (st, Some ((sec, off), ln)) -> Buffer.add_string b (Printf.sprintf "#N %d %d %s %s" (int_of_n st) (int_of_n sec) (str_of_n off) (str_of_n ln))
           | RNoFile -> Buffer.add_string b "#-") res;
         print_endline (Buffer.contents b)
     | "oab", [mode; bs; basehex; hex] ->
         let (st, out) = if mode = "F" then oab_run (n_of_int (int_of_string bs)) (bytes_of_hex hex) else oab_patch_run (bytes_of_hex hex) (bytes_of_hex basehex) in
         Printf.printf "%d %s\n" (int_of_n st) (hex_of_bytes out)
     | "cab", [salv; fixz; bs; ops; hex] ->
         let ops = if ops = "-" then [] else List.map n_of_int (ints ops) in
         let ((e, r), res) = cab_session (bytes_of_hex hex) (salv = "1") (fixz = "1") (n_of_int (int_of_string bs)) ops in
         let b = Buffer.create 4096 in
         let so = function None -> "-" | Some l -> if l = [] then "e" else hex_of_bytes l in
         (match r with
          | None -> Buffer.add_string b (Printf.sprintf "E%d" (int_of_n e))
          | Some c ->
            Buffer.add_string b (Printf.sprintf "H%d %d %d %d %d %d %s %s %s %s" (int_of_n c.c_len) (int_of_n c.c_setid) (int_of_n c.c_idx) (int_of_n c.c_hres) (int_of_n c.c_flags) (int_of_z c.c_base)
                                   (so c.c_prev) (so c.c_next) (so c.c_pinfo) (so c.c_ninfo));
            List.iter (fun f -> Buffer.add_string b (Printf.sprintf ";D %d %d" (int_of_n f.fo_comp) (int_of_n f.fo_nblocks))) c.c_folders;
            List.iter (fun f -> Buffer.add_string b (Printf.sprintf ";F %s %d %d %d %d %d:%d:%d %d-%d-%d" (if f.fi_name = [] then "e" else hex_of_bytes f.fi_name) (int_of_n f.fi_len) (int_of_n f.fi_attr) (int_of_n f.fi_folder) (int_of_n f.fi_off)
                                   (int_of_n f.fi_th) (int_of_n f.fi_tm) (int_of_n f.fi_ts) (int_of_n f.fi_dy) (int_of_n f.fi_dm) (int_of_n f.fi_dd))) c.c_files);
         List.iter (fun r -> match r with
           | None -> Buffer.add_string b "#-"
           | Some (st, out) -> Buffer.add_string b (Printf.sprintf "#X %d %s" (int_of_n st) (hex_of_bytes out))) res;
         print_endline (Buffer.contents b)
     | "cabset", salv :: fixz :: bs :: ops :: hexes ->
         (* ops: oK (open file K) | mL:R (merge, "-" for NULL) | lC (list) | xC:I (extract) separated by commas *)
         let files = List.map bytes_of_hex hexes in
         let optn s = if s = "-" then None else Some (n_of_int (int_of_string s)) in
         let op s = let a = String.sub s 1 (String.length s - 1) in
                    match s.[0] with
                    | 'o' -> SOpen (n_of_int (int_of_string a))
                    | 'm' -> (match String.split_on_char ':' a with [l; r] -> SMerge (optn l, optn r) | _ -> SMerge (None, None))
                    | 'l' -> SList (n_of_int (int_of_string a))
                    | _ -> (match String.split_on_char ':' a with [c; i] -> SExtract (n_of_int (int_of_string c), n_of_int (int_of_string i)) | _ -> SList N0) in
         let res = set_session (salv = "1") (fixz = "1") (n_of_int (int_of_string bs)) files (List.map op (String.split_on_char ',' ops)) in
         let b = Buffer.create 4096 in
         let same (a1, a2) (b1, b2) = int_of_n a1 = int_of_n b1 && int_of_n a2 = int_of_n b2 in
         List.iter (fun r -> match r with
           | ROpen e -> Buffer.add_string b (Printf.sprintf "#O %d" (int_of_n e))
           | RMerge e -> Buffer.add_string b (Printf.sprintf "#M %d" (int_of_n e))
           | RList (hp, hn, fos, fis) ->
             Buffer.add_string b (Printf.sprintf "#L %d %d" (if hp then 1 else 0) (if hn then 1 else 0));
             List.iter (fun f -> Buffer.add_string b (Printf.sprintf ";D %d %d" (int_of_n f.sf_comp) (int_of_n f.sf_nblocks))) fos;
             List.iter (fun sf -> let f = sf.sfi_f in
               let rec idx i = function [] -> -1 | fo :: r -> if same fo.sf_id sf.sfi_folder then i else idx (i + 1) r in
               Buffer.add_string b (Printf.sprintf ";F %s %d %d %d %d" (if f.fi_name = [] then "e" else hex_of_bytes f.fi_name) (int_of_n f.fi_len) (int_of_n f.fi_attr) (idx 0 fos) (int_of_n f.fi_off))) fis
           | RExtr None -> Buffer.add_string b "#-"
           | RExtr (Some (st, out)) -> Buffer.add_string b (Printf.sprintf "#X %d %s" (int_of_n st) (hex_of_bytes out))) res;
         print_endline (Buffer.contents b)
     | "kwaj", [hex] ->
         let ((e, h), x) = kwaj_session (bytes_of_hex hex) in
         (match h with
          | None -> Printf.printf "E%d\n" (int_of_n e)
          | Some k ->
            let nm = (match k.k_name with None -> "-" | Some [] -> "e" | Some l -> hex_of_bytes l) in
            let ex = (match k.k_extra with None -> "-" | Some l -> hex_of_bytes l) in
            let exl = (match k.k_extra with None -> 0 | Some l -> List.length l) in
            Printf.printf "H%d %d %d %d %s %d %s" (int_of_n k.k_comp) (int_of_n k.k_dataoff) (int_of_n k.k_headers) (int_of_n k.k_length) nm exl ex;
            (match x with None -> print_newline () | Some (st, out) -> Printf.printf "#X %d %s\n" (int_of_n st) (hex_of_bytes out)))
     | "lzss", [mode; hex] -> Printf.printf "0 %s\n" (hex_of_bytes (lzss_spec (n_of_int (int_of_string mode)) (bytes_of_hex hex)))
     | _ -> print_endline "?");
    flush stdout
  done with End_of_file -> ()
