/* edge counter for -fsanitize-coverage=trace-pc builds (this file itself is compiled without it) */
#include <stdio.h>
#include <unistd.h>
unsigned long long cov_edges;
extern unsigned long long cov_cap(void);
void __sanitizer_cov_trace_pc(void) {
  cov_edges++;
  if ((cov_edges & 0xFFFFF) == 0) { unsigned long long cap = cov_cap(); if (cap && cov_edges > cap) { printf("HANG edgecap edges=%llu\n", cov_edges); fflush(stdout); _exit(3); } }
}
