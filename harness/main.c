#include <string.h>
#include <stdio.h>
extern int scn_main(int argc, char **argv);
extern int unit_main(int argc, char **argv);
int main(int argc, char **argv) {
  if (argc < 2) { fprintf(stderr, "usage: impl_drv scn [timeout] | <engine> [bufsize] [fill]\n"); return 2; }
  if (!strcmp(argv[1], "scn")) return scn_main(argc, argv);
  return unit_main(argc, argv);
}
