/* instrumented in-memory mspack_system (see sysmon.h).  Never compiled with coverage instrumentation. */
#include <stdio.h>
#include <stdlib.h>
#include <string.h>
#include <stdarg.h>
#include "sysmon.h"

struct mfile mfiles[MAXFILES]; int nmfiles;
const char *kind_names[K_NKINDS] = { "open", "read", "write", "seek", "alloc", "tell", "close", "free", "copy", "msg" };
long calls[K_NKINDS]; long faults_hit; int sm_trace; int sm_fill = 0xAA; long sm_viol; long sm_written_total;
int sm_recycle;     /* 1: a freed block is handed out again, contents untouched, to the next alloc of the same size (what a real heap tends to do) */
static struct { void *p; size_t n; } pool[64]; static int npool;
struct fault sm_faults[8]; int sm_nfaults;
static char violtext[32][200]; static int nvioltext;

/* ---------------- ledger ---------------- */
struct arec { void *p; size_t n; int id; int live; };
static struct arec *arecs; static size_t narecs, caprecs;
struct hrec { int id; struct mfile *f; int mode; size_t pos; int open; unsigned magic; };
#define HMAGIC 0x48414e44u
static struct hrec **hrecs; static size_t nhrecs, caphrecs;
static int nextid = 1;

void sm_violation(const char *fmt, ...) {
  va_list ap; sm_viol++;
  if (nvioltext < 32) {
    va_start(ap, fmt); vsnprintf(violtext[nvioltext], 200, fmt, ap); va_end(ap);
    /* reported at once: the call that follows a broken contract may not survive (a read into too small a buffer ends under ASan) */
    printf("viol %s\n", violtext[nvioltext++]); fflush(stdout);
  }
}

static unsigned long zenc(long z) { return z == 0 ? 0 : (z > 0 ? 2ul * z : 2ul * (-z) + 1); }

static int faulty(int kind, int *mode) {
  long k = calls[kind]++; int i;
  for (i = 0; i < sm_nfaults; i++)
    if (sm_faults[i].kind == kind && sm_faults[i].idx == k) { faults_hit++; if (mode) *mode = sm_faults[i].mode; return 1; }
  return 0;
}

struct mfile *sm_file(const char *name, int create) {
  int i;
  for (i = 0; i < nmfiles; i++) if (mfiles[i].used && !strcmp(mfiles[i].name, name)) return &mfiles[i];
  if (!create || nmfiles >= MAXFILES) return NULL;
  memset(&mfiles[nmfiles], 0, sizeof mfiles[0]);
  snprintf(mfiles[nmfiles].name, sizeof mfiles[0].name, "%s", name);
  mfiles[nmfiles].used = 1;
  return &mfiles[nmfiles++];
}

static struct hrec *hcheck(struct mspack_file *f, const char *what) {
  struct hrec *h = (struct hrec *) f; size_t i;
  if (!f) { sm_violation("%s on NULL handle", what); return NULL; }
  for (i = 0; i < nhrecs; i++) if (hrecs[i] == h) break;
  if (i == nhrecs) { sm_violation("%s on unknown handle", what); return NULL; }
  if (!h->open) { sm_violation("%s on closed handle #%d", what, h->id); return NULL; }
  return h;
}

static struct arec *afind(const void *p) {   /* live allocation containing p */
  size_t i;
  for (i = narecs; i-- > 0; )
    if (arecs[i].live && (const char *) p >= (const char *) arecs[i].p &&
        (const char *) p < (const char *) arecs[i].p + (arecs[i].n ? arecs[i].n : 1)) return &arecs[i];
  return NULL;
}
static void bufcheck(const void *buf, size_t n, const char *what) {
  struct arec *a = afind(buf);
  if (a && (const char *) buf + n > (const char *) a->p + a->n)
    sm_violation("%s: buffer of %zu bytes overruns allocation #%d of %zu bytes", what, n, a->id, a->n);
}

static struct mspack_file *m_open(struct mspack_system *s, const char *fn, int mode) {
  struct mfile *f; struct hrec *h; (void) s;
  if (mode != MSPACK_SYS_OPEN_READ && mode != MSPACK_SYS_OPEN_WRITE)
    sm_violation("open with mode %d", mode);
  if (!fn) { sm_violation("open with NULL filename"); calls[K_OPEN]++; return NULL; }
  if (faulty(K_OPEN, NULL)) { if (sm_trace) printf("cb open %s %d fail\n", fn, mode); return NULL; }
  f = sm_file(fn, mode == MSPACK_SYS_OPEN_WRITE);
  if (!f) { if (sm_trace) printf("cb open %s %d nofile\n", fn, mode); return NULL; }
  if (mode == MSPACK_SYS_OPEN_WRITE) { if (strncmp(fn, "out", 3)) sm_violation("open for WRITE of non-output name %s", fn); f->len = 0; }
  else if (!strncmp(fn, "out", 3)) sm_violation("open for READ of output name %s", fn);
  h = malloc(sizeof *h); h->id = nextid++; h->f = f; h->mode = mode; h->pos = 0; h->open = 1; h->magic = HMAGIC;
  if (nhrecs == caphrecs) { caphrecs = caphrecs ? 2 * caphrecs : 64; hrecs = realloc(hrecs, caphrecs * sizeof *hrecs); }
  hrecs[nhrecs++] = h;
  if (sm_trace) printf("cb open %s %d ok #%d\n", fn, mode, h->id);
  return (struct mspack_file *) h;
}
static void m_close(struct mspack_file *f) {
  struct hrec *h = hcheck(f, "close"); calls[K_CLOSE]++;
  if (sm_trace) printf("cb close #%d\n", h ? h->id : -1);
  if (h) h->open = 0;
}
static int m_read(struct mspack_file *f, void *buf, int n) {
  struct hrec *h = hcheck(f, "read"); size_t k;
  if (n < 0) sm_violation("read with negative size %d", n);
  if (!buf) sm_violation("read into NULL buffer");
  if (h && h->mode != MSPACK_SYS_OPEN_READ) sm_violation("read on write handle #%d", h->id);
  if (faulty(K_READ, NULL) || !h || n < 0 || !buf) { if (sm_trace) printf("cb read #%d %d fail\n", h ? h->id : -1, n); return -1; }
  bufcheck(buf, (size_t) n, "read");
  memset(buf, sm_fill ^ 0x5a, (size_t) n);          /* touches the whole destination (ASan checks capacity) */
  if (h->f->vlen) {          /* sparse file */
    size_t i, a, b;
    k = h->pos < h->f->vlen ? h->f->vlen - h->pos : 0; if ((size_t) n < k) k = (size_t) n;
    memset(buf, 0, k);
    a = h->pos > h->f->voff ? h->pos : h->f->voff; b = h->pos + k < h->f->voff + h->f->len ? h->pos + k : h->f->voff + h->f->len;
    for (i = a; i < b; i++) ((unsigned char *) buf)[i - h->pos] = h->f->data[i - h->f->voff];
    h->pos += k;
    if (sm_trace) printf("cb read #%d %d -> %zu\n", h->id, n, k);
    return (int) k;
  }
  k = h->pos < h->f->len ? h->f->len - h->pos : 0; if ((size_t) n < k) k = (size_t) n;
  memcpy(buf, h->f->data + h->pos, k); h->pos += k;
  if (sm_trace) printf("cb read #%d %d -> %zu\n", h->id, n, k);
  return (int) k;
}
static int m_write(struct mspack_file *f, void *buf, int n) {
  struct hrec *h = hcheck(f, "write"); int mode = 0;
  if (n < 0) sm_violation("write with negative size %d", n);
  if (!buf) sm_violation("write from NULL buffer");
  if (h && h->mode != MSPACK_SYS_OPEN_WRITE) sm_violation("write on read handle #%d", h->id);
  if (faulty(K_WRITE, &mode)) {
    if (mode == 1 && h && n > 0 && buf) {          /* short write: accept n-1 bytes */
      int m = n - 1;
      if (h->f->len + m > h->f->cap) { h->f->cap = 2 * (h->f->len + m) + 64; h->f->data = realloc(h->f->data, h->f->cap); }
      memcpy(h->f->data + h->f->len, buf, m); h->f->len += m; sm_written_total += m;
      if (sm_trace) printf("cb write #%d %d -> short %d\n", h->id, n, m);
      return m;
    }
    if (sm_trace) printf("cb write #%d %d fail\n", h ? h->id : -1, n);
    return -1;
  }
  if (!h || n < 0 || !buf) return -1;
  bufcheck(buf, (size_t) n, "write");
  if (h->f->len + n > h->f->cap) { h->f->cap = 2 * (h->f->len + n) + 64; h->f->data = realloc(h->f->data, h->f->cap); }
  memcpy(h->f->data + h->f->len, buf, (size_t) n); h->f->len += n; sm_written_total += n;
  if (sm_trace) printf("cb write #%d %d -> %d\n", h->id, n, n);
  return n;
}
static int m_seek(struct mspack_file *f, off_t off, int whence) {
  struct hrec *h = hcheck(f, "seek"); long base, np;
  if (whence != MSPACK_SYS_SEEK_START && whence != MSPACK_SYS_SEEK_CUR && whence != MSPACK_SYS_SEEK_END)
    sm_violation("seek with mode %d", whence);
  if (faulty(K_SEEK, NULL) || !h) { if (sm_trace) printf("cb seek #%d %lu %d fail\n", h ? h->id : -1, zenc(off), whence); return -1; }
  base = whence == MSPACK_SYS_SEEK_START ? 0 : (whence == MSPACK_SYS_SEEK_CUR ? (long) h->pos : (long) (h->f->vlen ? h->f->vlen : h->f->len));
  np = base + (long) off;
  if (np < 0) { if (sm_trace) printf("cb seek #%d %lu %d neg\n", h->id, zenc(off), whence); return -1; }
  h->pos = (size_t) np;
  if (sm_trace) printf("cb seek #%d %lu %d ok\n", h->id, zenc(off), whence);
  return 0;
}
static off_t m_tell(struct mspack_file *f) {
  struct hrec *h = hcheck(f, "tell"); calls[K_TELL]++;
  if (sm_trace) printf("cb tell #%d %zu\n", h ? h->id : -1, h ? h->pos : 0);
  return h ? (off_t) h->pos : 0;
}
static void m_msg(struct mspack_file *f, const char *fmt, ...) {
  calls[K_MSG]++;
  if (f) hcheck(f, "message");
  if (!fmt) sm_violation("message with NULL format");
  if (sm_trace) { if (f) printf("cb msg #%d\n", ((struct hrec *) f)->id); else printf("cb msg null\n"); }
}
static void *m_alloc(struct mspack_system *s, size_t n) {
  void *p; (void) s;
  if (faulty(K_ALLOC, NULL)) { if (sm_trace) printf("cb alloc %zu fail\n", n); return NULL; }
  if (n > ((size_t) 1 << 31)) { sm_violation("alloc of %zu bytes", n); return NULL; }
  p = NULL;
  if (sm_recycle) { int i; for (i = npool; i-- > 0; ) if (pool[i].n == n) { p = pool[i].p; pool[i] = pool[--npool]; break; } }
  if (!p) { p = malloc(n ? n : 1); if (!p) return NULL; memset(p, sm_fill, n); }
  if (narecs == caprecs) { caprecs = caprecs ? 2 * caprecs : 256; arecs = realloc(arecs, caprecs * sizeof *arecs); }
  arecs[narecs].p = p; arecs[narecs].n = n; arecs[narecs].id = nextid++; arecs[narecs].live = 1; narecs++;
  if (sm_trace) printf("cb alloc %zu ok @%d\n", n, arecs[narecs - 1].id);
  return p;
}
static void m_free(void *p) {
  size_t i; calls[K_FREE]++;
  if (!p) { if (sm_trace) printf("cb free null\n"); return; }
  for (i = narecs; i-- > 0; ) if (arecs[i].p == p && arecs[i].live) break;
  if (i == (size_t) -1) {
    for (i = narecs; i-- > 0; ) if (arecs[i].p == p) break;
    if (i == (size_t) -1) sm_violation("free of a pointer not obtained from alloc"); else sm_violation("double free of allocation #%d", arecs[i].id);
    if (sm_trace) printf("cb free bad\n");
    return;
  }
  arecs[i].live = 0;
  if (sm_trace) printf("cb free @%d\n", arecs[i].id);
  if (sm_recycle && npool < 64) { pool[npool].p = p; pool[npool].n = arecs[i].n; npool++; arecs[i].p = NULL; }
  else free(p);
}
static void m_copy(void *src, void *dst, size_t n) {
  calls[K_COPY]++;
  if (n && ((char *) src < (char *) dst + n) && ((char *) dst < (char *) src + n)) sm_violation("copy on overlapping regions (%zu bytes)", n);
  bufcheck(src, n, "copy(src)"); bufcheck(dst, n, "copy(dst)");
  if (sm_trace) printf("cb copy %zu\n", n);
  memmove(dst, src, n);
}

static struct mspack_system the_sys = { m_open, m_close, m_read, m_write, m_seek, m_tell, m_msg, m_alloc, m_free, m_copy, NULL };
struct mspack_system *sm_system(void) { return &the_sys; }

long sm_live_allocs(void) { size_t i; long k = 0; for (i = 0; i < narecs; i++) k += arecs[i].live; return k; }
long sm_open_handles(void) { size_t i; long k = 0; for (i = 0; i < nhrecs; i++) k += hrecs[i]->open; return k; }

void sm_report(void) {
  int i;
  printf("ledger live_allocs=%ld open_handles=%ld violations=%ld faults_hit=%ld\n", sm_live_allocs(), sm_open_handles(), sm_viol, faults_hit);
  printf("calls");
  for (i = 0; i < K_NKINDS; i++) printf(" %s=%ld", kind_names[i], calls[i]);
  printf("\n");
}

void sm_reset(void) {
  size_t i; int j;
  for (i = 0; i < narecs; i++) if (arecs[i].live) free(arecs[i].p);
  narecs = 0;
  for (i = 0; i < nhrecs; i++) free(hrecs[i]);
  nhrecs = 0;
  for (j = 0; j < nmfiles; j++) { free(mfiles[j].data); }
  memset(mfiles, 0, sizeof mfiles); nmfiles = 0;
  memset(calls, 0, sizeof calls); faults_hit = 0; sm_nfaults = 0; sm_viol = 0; nvioltext = 0; nextid = 1; sm_written_total = 0;
  sm_fill = 0xAA; sm_trace = 0; sm_recycle = 0;
  while (npool > 0) free(pool[--npool].p);
}
