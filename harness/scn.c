/* scenario runner: drives the public API of all five front ends over the instrumented system.
 * usage: impl_drv scn < scenarios      (scenarios separated by "end"; see tools/vlib/scenario.py)          */
#include <stdio.h>
#include <stdlib.h>
#include <string.h>
#include <signal.h>
#include <unistd.h>
#include "sysmon.h"

extern unsigned long long cov_edges;              /* cov.c */
#define NV 16
static struct mscab_decompressor *cabd; static struct mscabd_cabinet *cabs[NV]; static int absorbed[NV];
static struct mschm_decompressor *chmd; static struct mschmd_header *chms[NV];
static struct msszdd_decompressor *szddd; static struct msszddd_header *szdds[NV];
static struct mskwaj_decompressor *kwajd; static struct mskwajd_header *kwajs[NV];
static struct msoab_decompressor *oabd;
static int opno; static int scn_no;
/* several decompressor instances of each kind can be alive at once: "inst N" switches between N = 0..3 (C19: instances are independent) */
#define NI 4
static struct { struct mscab_decompressor *cabd; struct mscabd_cabinet *cabs[NV]; int absorbed[NV];
                struct mschm_decompressor *chmd; struct mschmd_header *chms[NV];
                struct msszdd_decompressor *szddd; struct msszddd_header *szdds[NV];
                struct mskwaj_decompressor *kwajd; struct mskwajd_header *kwajs[NV];
                struct msoab_decompressor *oabd; } saved[NI];
static int cur_inst = 0;
static void save_inst(int k) { saved[k].cabd = cabd; memcpy(saved[k].cabs, cabs, sizeof cabs); memcpy(saved[k].absorbed, absorbed, sizeof absorbed);
  saved[k].chmd = chmd; memcpy(saved[k].chms, chms, sizeof chms); saved[k].szddd = szddd; memcpy(saved[k].szdds, szdds, sizeof szdds);
  saved[k].kwajd = kwajd; memcpy(saved[k].kwajs, kwajs, sizeof kwajs); saved[k].oabd = oabd; }
static void load_inst(int k) { cabd = saved[k].cabd; memcpy(cabs, saved[k].cabs, sizeof cabs); memcpy(absorbed, saved[k].absorbed, sizeof absorbed);
  chmd = saved[k].chmd; memcpy(chms, saved[k].chms, sizeof chms); szddd = saved[k].szddd; memcpy(szdds, saved[k].szdds, sizeof szdds);
  kwajd = saved[k].kwajd; memcpy(kwajs, saved[k].kwajs, sizeof kwajs); oabd = saved[k].oabd; }
static int hexout = 1;          /* print output bytes in full (1) or as length + fnv hash (0) */

static void hexs(const unsigned char *p, size_t n) { size_t i; for (i = 0; i < n; i++) printf("%02x", p[i]); }
static void strhex(const char *s) { if (!s) { printf("-"); return; } if (!*s) printf("e"); hexs((const unsigned char *) s, strlen(s)); }
static size_t unhex(const char *h, unsigned char **out) {
  size_t n = strlen(h) / 2, i; *out = malloc(n + 1);
  for (i = 0; i < n; i++) { unsigned v; sscanf(h + 2 * i, "%2x", &v); (*out)[i] = (unsigned char) v; }
  (*out)[n] = 0; return n;
}
static void show_out(const char *name) {
  struct mfile *f = sm_file(name, 0);
  if (!f) { printf("out %s absent\n", name); return; }
  if (hexout) { printf("out %s len=%zu hex=", name, f->len); hexs(f->data, f->len); printf("\n"); }
  else { unsigned long long h = 1469598103934665603ull; size_t i; for (i = 0; i < f->len; i++) { h ^= f->data[i]; h *= 1099511628211ull; }
         printf("out %s len=%zu fnv=%016llx\n", name, f->len, h); }
}
static int vi(const char *s) { int v = atoi(s + 1); return (v < 0 || v >= NV) ? 0 : v; }   /* "c3" -> 3 */

/* folder index of a file within the cabinet's folder list */
static int folidx(struct mscabd_cabinet *c, struct mscabd_folder *f) { int i = 0; struct mscabd_folder *x; for (x = c->folders; x; x = x->next, i++) if (x == f) return i; return -1; }
static void cab_list(struct mscabd_cabinet *c0) {
  struct mscabd_cabinet *c; struct mscabd_file *fi; struct mscabd_folder *fo; int i;
  for (c = c0, i = 0; c; c = c->next, i++) {
    printf("cab %d base=%ld len=%u setid=%u idx=%u hres=%u flags=%u prev=", i, (long) c->base_offset, c->length, c->set_id, c->set_index, c->header_resv, c->flags);
    strhex(c->prevname); printf(" next="); strhex(c->nextname); printf(" pinfo="); strhex(c->previnfo); printf(" ninfo="); strhex(c->nextinfo);
    printf(" haspc=%d hasnc=%d\n", c->prevcab != NULL, c->nextcab != NULL);
    for (fo = c->folders; fo; fo = fo->next) printf(" folder comp=%u blocks=%u\n", fo->comp_type, fo->num_blocks);
    for (fi = c->files; fi; fi = fi->next) {
      printf(" file name="); strhex(fi->filename);
      printf(" len=%u attr=%u fol=%d off=%u t=%d:%d:%d d=%d-%d-%d\n", fi->length, fi->attribs, folidx(c, fi->folder), fi->offset,
             fi->time_h, fi->time_m, fi->time_s, fi->date_y, fi->date_m, fi->date_d);
    }
  }
}
static struct mscabd_file *cab_file(struct mscabd_cabinet *c, int idx) { struct mscabd_file *f = c ? c->files : NULL; while (f && idx-- > 0) f = f->next; return f; }
static struct mscabd_cabinet *cab_nth(struct mscabd_cabinet *c, int n) { while (c && n-- > 0) c = c->next; return c; }

static void chm_list(struct mschmd_header *h) {
  struct mschmd_file *f;
  printf("chm ver=%u lang=%u len=%ld nchunks=%u csize=%u dens=%u depth=%u root=%u first=%u last=%u sec0off=%ld diroff=%ld\n", h->version, h->language, (long) h->length,
         h->num_chunks, h->chunk_size, h->density, h->depth, h->index_root, h->first_pmgl, h->last_pmgl, (long) h->sec0.offset, (long) h->dir_offset);
  for (f = h->files; f; f = f->next) { printf(" file name="); strhex(f->filename); printf(" sec=%u off=%ld len=%ld\n", f->section ? f->section->id : 9, (long) f->offset, (long) f->length); }
  for (f = h->sysfiles; f; f = f->next) { printf(" sys name="); strhex(f->filename); printf(" sec=%u off=%ld len=%ld\n", f->section ? f->section->id : 9, (long) f->offset, (long) f->length); }
}
static struct mschmd_file *chm_file(struct mschmd_header *h, int idx) {
  struct mschmd_file *f; if (!h) return NULL;
  for (f = h->files; f; f = f->next) if (idx-- == 0) return f;
  for (f = h->sysfiles; f; f = f->next) if (idx-- == 0) return f;
  return NULL;
}

static void on_alarm(int sig) { (void) sig; printf("HANG scn=%d op=%d edges=%llu\n", scn_no, opno, cov_edges); fflush(stdout); _exit(3); }

#define ST(kind, st, le) printf("op %d %s st=%d err=%d\n", opno, kind, (st), (le))
static unsigned long long edge_cap = 0;
unsigned long long cov_cap(void) { return edge_cap; }

static void run_op(char **t, int n) {
  const char *o = t[0]; int st;
  unsigned long long e0 = cov_edges; long w0 = sm_written_total; long c0[K_NKINDS]; memcpy(c0, calls, sizeof c0);
  opno++;
  { int k; printf("vars"); for (k = 1; k < n && k < 3; k++) if ((t[k][0] == 'c' || t[k][0] == 'h') && t[k][1] >= '0' && t[k][1] <= '9' && strlen(t[k]) <= 3) printf(" %s", t[k]); printf("\n"); }
  if (!strcmp(o, "cab_new")) { cabd = mspack_create_cab_decompressor(sm_system()); printf("op %d cab_new ok=%d\n", opno, cabd != NULL); }
  else if (!strcmp(o, "cab_param") && n >= 3) { st = cabd ? cabd->set_param(cabd, atoi(t[1]), atoi(t[2])) : -1; printf("op %d cab_param st=%d\n", opno, st); }
  else if ((!strcmp(o, "cab_open") || !strcmp(o, "cab_search")) && n >= 3) {
    if (!cabd) return;
    /* the name handed to the library must stay alive: use the file table's own copy */
    struct mfile *f = sm_file(t[2], 0); const char *nm = f ? f->name : t[2];
    if (!f) { static char keep[NV][80]; snprintf(keep[vi(t[1])], 80, "%s", t[2]); nm = keep[vi(t[1])]; }
    cabs[vi(t[1])] = o[4] == 'o' ? cabd->open(cabd, nm) : cabd->search(cabd, nm);
    printf("op %d %s ok=%d err=%d\n", opno, o, cabs[vi(t[1])] != NULL, cabd->last_error(cabd));
    if (cabs[vi(t[1])]) cab_list(cabs[vi(t[1])]);
  }
  else if (!strcmp(o, "cab_list") && n >= 2) { printf("op %d cab_list\n", opno); if (cabs[vi(t[1])]) cab_list(cabs[vi(t[1])]); }
  else if ((!strcmp(o, "cab_append") || !strcmp(o, "cab_prepend")) && n >= 3) {
    /* optional 4th/5th token: index into the ->next chain of each variable (search results) */
    struct mscabd_cabinet *a = cab_nth(cabs[vi(t[1])], n >= 4 ? atoi(t[3]) : 0), *b = !strcmp(t[2], "null") ? NULL : cab_nth(cabs[vi(t[2])], n >= 5 ? atoi(t[4]) : 0);
    if (!cabd) return;
    st = o[4] == 'a' ? cabd->append(cabd, a, b) : cabd->prepend(cabd, a, b);
    ST(o, st, cabd->last_error(cabd));
    /* after a successful join the two cabinets form one set: it is closed once, through the left-most variable that is still owned */
    if (st == 0 && b && (n < 4)) absorbed[o[4] == 'a' ? vi(t[2]) : vi(t[1])] = 1;
  }
  else if (!strcmp(o, "cab_extract") && n >= 4) {
    struct mscabd_file *f = cab_file(cab_nth(cabs[vi(t[1])], n >= 5 ? atoi(t[4]) : 0), atoi(t[2]));
    if (!cabd) return;
    if (!f) { printf("op %d cab_extract nofile\n", opno); return; }
    { unsigned int declared = f->length;      /* read before the call */
      st = cabd->extract(cabd, f, t[3]); ST(o, st, cabd->last_error(cabd));
      printf("declared %u written %ld\n", declared, sm_written_total - w0); }
    show_out(t[3]);
  }
  else if (!strcmp(o, "cab_extract_all") && n >= 3) {   /* cab_extract_all VAR OUTPREFIX [max] [reverse] : one cab_extract per listed file */
    struct mscabd_cabinet *c = cabs[vi(t[1])]; struct mscabd_file *f; int k = 0, max = n >= 4 ? atoi(t[3]) : 1000000, cnt = 0, rev = n >= 5 && atoi(t[4]);
    char nm[80];
    if (!cabd || !c) return;
    for (f = c->files; f; f = f->next) cnt++;
    for (k = 0; k < cnt && k < max; k++) {
      int idx = rev ? cnt - 1 - k : k; unsigned int declared; long w1 = sm_written_total;
      f = cab_file(c, idx); if (!f) break;
      declared = f->length; snprintf(nm, sizeof nm, "%s%d", t[2], idx);
      if (k) opno++;
      st = cabd->extract(cabd, f, nm); ST("cab_extract", st, cabd->last_error(cabd));
      printf("declared %u written %ld\n", declared, sm_written_total - w1); show_out(nm);
    }
  }
  else if (!strcmp(o, "cab_extract_seq") && n >= 5) {   /* cab_extract_seq VAR OUTPREFIX SEED COUNT : pseudo-random member order with repeats (same, next, random) */
    struct mscabd_cabinet *c = cabs[vi(t[1])]; struct mscabd_file *f; int cnt = 0, k, idx = 0, count = atoi(t[4]); unsigned long z = strtoul(t[3], NULL, 10) * 2654435761ul + 12345;
    char nm[80];
    if (!cabd || !c) return;
    for (f = c->files; f; f = f->next) cnt++;
    if (!cnt) return;
    for (k = 0; k < count; k++) {
      unsigned int declared; long w1 = sm_written_total; unsigned r;
      z = z * 6364136223846793005ul + 1442695040888963407ul; r = (unsigned) (z >> 33);
      if (k == 0 || r % 4 == 3) idx = (int) ((r >> 4) % (unsigned) cnt); else if (r % 4 == 1) idx = (idx + 1) % cnt; else if (r % 4 == 2 && idx > 0) idx = idx - 1; /* r%4==0: same again */
      f = cab_file(c, idx); if (!f) break;
      declared = f->length; snprintf(nm, sizeof nm, "%s%d_%d", t[2], k, idx);
      if (k) opno++;
      st = cabd->extract(cabd, f, nm); printf("op %d cab_extract st=%d err=%d idx=%d\n", opno, st, cabd->last_error(cabd), idx);
      printf("declared %u written %ld\n", declared, sm_written_total - w1); show_out(nm);
    }
  }
  else if (!strcmp(o, "chm_extract_all") && n >= 3) {
    struct mschmd_header *h = chms[vi(t[1])]; struct mschmd_file *f; int k, max = n >= 4 ? atoi(t[3]) : 1000000, rev = n >= 5 && atoi(t[4]), cnt = 0; char nm[80];
    if (!chmd || !h) return;
    for (f = h->files; f; f = f->next) cnt++;
    for (f = h->sysfiles; f; f = f->next) cnt++;
    for (k = 0; k < cnt && k < max; k++) {
      int idx = rev ? cnt - 1 - k : k; long declared; long w1 = sm_written_total;
      f = chm_file(h, idx); if (!f) break;
      declared = (long) f->length; snprintf(nm, sizeof nm, "%s%d", t[2], idx);
      if (k) opno++;
      st = chmd->extract(chmd, f, nm); ST("chm_extract", st, chmd->last_error(chmd));
      printf("declared %ld written %ld\n", declared, sm_written_total - w1); show_out(nm);
    }
  }
  else if (!strcmp(o, "chm_find_all") && n >= 2) {     /* fast_find every listed name */
    struct mschmd_header *h = chms[vi(t[1])]; struct mschmd_file *f, fi; int k = 0, max = n >= 3 ? atoi(t[2]) : 1000000;
    if (!chmd || !h) return;
    for (f = h->files; f && k < max; f = f->next, k++) {
      if (k) opno++;
      memset(&fi, 0x5c, sizeof fi); st = chmd->fast_find(chmd, h, f->filename, &fi, (int) sizeof fi);
      printf("op %d chm_find st=%d err=%d name=", opno, st, chmd->last_error(chmd)); strhex(f->filename); printf("\n");
      if (st == 0) { if (fi.section) printf("found sec=%u off=%ld len=%ld\n", fi.section->id, (long) fi.offset, (long) fi.length); else printf("found none\n"); }
      printf("listed sec=%u off=%ld len=%ld\n", f->section ? f->section->id : 9, (long) f->offset, (long) f->length);
    }
  }
  else if (!strcmp(o, "cab_close") && n >= 2) { if (cabd && cabs[vi(t[1])] && !absorbed[vi(t[1])]) { cabd->close(cabd, cabs[vi(t[1])]); cabs[vi(t[1])] = NULL; printf("op %d cab_close err=%d\n", opno, cabd->last_error(cabd)); } }
  else if (!strcmp(o, "cab_close_any") && n >= 2) {     /* close a whole set through ANY of its members (the API allows it) */
    struct mscabd_cabinet *c = cabd ? cabs[vi(t[1])] : NULL;
    if (c) {
      struct mscabd_cabinet *w; int i;
      for (i = 0; i < NV; i++) { if (!cabs[i] || cabs[i] == c) continue;
        for (w = c; w; w = w->prevcab) if (w == cabs[i]) break;
        if (!w) for (w = c; w; w = w->nextcab) if (w == cabs[i]) break;
        if (w) { cabs[i] = NULL; absorbed[i] = 0; } }
      cabd->close(cabd, c); cabs[vi(t[1])] = NULL; absorbed[vi(t[1])] = 0;
      printf("op %d cab_close_any err=%d live_allocs=%ld open_handles=%ld\n", opno, cabd->last_error(cabd), sm_live_allocs(), sm_open_handles());
    }
  }
  else if (!strcmp(o, "ledger_now")) printf("op %d ledger_now live_allocs=%ld open_handles=%ld\n", opno, sm_live_allocs(), sm_open_handles());
  else if (!strcmp(o, "cab_destroy")) { if (cabd) mspack_destroy_cab_decompressor(cabd); cabd = NULL; memset(cabs, 0, sizeof cabs); memset(absorbed, 0, sizeof absorbed); printf("op %d cab_destroy\n", opno); }

  else if (!strcmp(o, "chm_new")) { chmd = mspack_create_chm_decompressor(sm_system()); printf("op %d chm_new ok=%d\n", opno, chmd != NULL); }
  else if ((!strcmp(o, "chm_open") || !strcmp(o, "chm_fast_open")) && n >= 3) {
    struct mfile *f = sm_file(t[2], 0); if (!chmd) return;
    chms[vi(t[1])] = o[4] == 'o' ? chmd->open(chmd, f ? f->name : "nonexistent") : chmd->fast_open(chmd, f ? f->name : "nonexistent");
    printf("op %d %s ok=%d err=%d\n", opno, o, chms[vi(t[1])] != NULL, chmd->last_error(chmd));
    if (chms[vi(t[1])]) chm_list(chms[vi(t[1])]);
  }
  else if (!strcmp(o, "chm_extract") && n >= 4) {
    struct mschmd_file *f = chm_file(chms[vi(t[1])], atoi(t[2])); if (!chmd) return;
    if (!f) { printf("op %d chm_extract nofile\n", opno); return; }
    { long declared = (long) f->length; st = chmd->extract(chmd, f, t[3]); ST(o, st, chmd->last_error(chmd));
      printf("declared %ld written %ld\n", declared, sm_written_total - w0); }
    show_out(t[3]);
  }
  else if (!strcmp(o, "chm_find") && n >= 3) {     /* chm_find h0 NAMEHEX [OUT] : fast_find, then optionally extract the result */
    struct mschmd_file fi; unsigned char *nm; if (!chmd || !chms[vi(t[1])]) return;
    unhex(t[2], &nm); memset(&fi, 0x5c, sizeof fi);
    st = chmd->fast_find(chmd, chms[vi(t[1])], (char *) nm, &fi, (int) sizeof fi);
    printf("op %d chm_find st=%d err=%d name=%s\n", opno, st, chmd->last_error(chmd), t[2]);
    if (st == 0) { if (fi.section) printf("found sec=%u off=%ld len=%ld\n", fi.section->id, (long) fi.offset, (long) fi.length); else printf("found none\n"); }
    if (st == 0 && fi.section && n >= 4) { opno++; w0 = sm_written_total; st = chmd->extract(chmd, &fi, t[3]); ST("chm_extract", st, chmd->last_error(chmd));
      printf("declared %ld written %ld\n", (long) fi.length, sm_written_total - w0); show_out(t[3]); }
    free(nm);
  }
  else if (!strcmp(o, "chm_close") && n >= 2) { if (chmd && chms[vi(t[1])]) { chmd->close(chmd, chms[vi(t[1])]); chms[vi(t[1])] = NULL; printf("op %d chm_close err=%d\n", opno, chmd->last_error(chmd)); } }
  else if (!strcmp(o, "chm_destroy")) { if (chmd) mspack_destroy_chm_decompressor(chmd); chmd = NULL; memset(chms, 0, sizeof chms); printf("op %d chm_destroy\n", opno); }

  else if (!strcmp(o, "szdd_new")) { szddd = mspack_create_szdd_decompressor(sm_system()); printf("op %d szdd_new ok=%d\n", opno, szddd != NULL); }
  else if (!strcmp(o, "szdd_open") && n >= 3) {
    struct mfile *f = sm_file(t[2], 0); struct msszddd_header *h; if (!szddd) return;
    h = szdds[vi(t[1])] = szddd->open(szddd, f ? f->name : "nonexistent");
    printf("op %d szdd_open ok=%d err=%d\n", opno, h != NULL, szddd->last_error(szddd));
    if (h) printf("szdd format=%d len=%ld missing=%d\n", h->format, (long) h->length, (unsigned char) h->missing_char);
  }
  else if (!strcmp(o, "szdd_extract") && n >= 3) { if (!szddd || !szdds[vi(t[1])]) return; st = szddd->extract(szddd, szdds[vi(t[1])], t[2]); ST(o, st, szddd->last_error(szddd)); show_out(t[2]); }
  else if (!strcmp(o, "szdd_decompress") && n >= 3) { struct mfile *f = sm_file(t[1], 0); if (!szddd) return; st = szddd->decompress(szddd, f ? f->name : "nonexistent", t[2]); ST(o, st, szddd->last_error(szddd)); show_out(t[2]); }
  else if (!strcmp(o, "szdd_close") && n >= 2) { if (szddd && szdds[vi(t[1])]) { szddd->close(szddd, szdds[vi(t[1])]); szdds[vi(t[1])] = NULL; printf("op %d szdd_close err=%d\n", opno, szddd->last_error(szddd)); } }
  else if (!strcmp(o, "szdd_destroy")) { if (szddd) mspack_destroy_szdd_decompressor(szddd); szddd = NULL; memset(szdds, 0, sizeof szdds); printf("op %d szdd_destroy\n", opno); }

  else if (!strcmp(o, "kwaj_new")) { kwajd = mspack_create_kwaj_decompressor(sm_system()); printf("op %d kwaj_new ok=%d\n", opno, kwajd != NULL); }
  else if (!strcmp(o, "kwaj_open") && n >= 3) {
    struct mfile *f = sm_file(t[2], 0); struct mskwajd_header *h; if (!kwajd) return;
    h = kwajs[vi(t[1])] = kwajd->open(kwajd, f ? f->name : "nonexistent");
    printf("op %d kwaj_open ok=%d err=%d\n", opno, h != NULL, kwajd->last_error(kwajd));
    if (h) { printf("kwaj comp=%u dataoff=%ld headers=%d len=%ld name=", h->comp_type, (long) h->data_offset, h->headers, (long) h->length); strhex(h->filename);
             printf(" extralen=%u extra=", h->extra_length); if (h->extra) hexs((unsigned char *) h->extra, h->extra_length); else printf("-"); printf("\n"); }
  }
  else if (!strcmp(o, "kwaj_extract") && n >= 3) { if (!kwajd || !kwajs[vi(t[1])]) return; st = kwajd->extract(kwajd, kwajs[vi(t[1])], t[2]); ST(o, st, kwajd->last_error(kwajd)); show_out(t[2]); }
  else if (!strcmp(o, "kwaj_decompress") && n >= 3) { struct mfile *f = sm_file(t[1], 0); if (!kwajd) return; st = kwajd->decompress(kwajd, f ? f->name : "nonexistent", t[2]); ST(o, st, kwajd->last_error(kwajd)); show_out(t[2]); }
  else if (!strcmp(o, "kwaj_close") && n >= 2) { if (kwajd && kwajs[vi(t[1])]) { kwajd->close(kwajd, kwajs[vi(t[1])]); kwajs[vi(t[1])] = NULL; printf("op %d kwaj_close err=%d\n", opno, kwajd->last_error(kwajd)); } }
  else if (!strcmp(o, "kwaj_destroy")) { if (kwajd) mspack_destroy_kwaj_decompressor(kwajd); kwajd = NULL; memset(kwajs, 0, sizeof kwajs); printf("op %d kwaj_destroy\n", opno); }

  else if (!strcmp(o, "oab_new")) { oabd = mspack_create_oab_decompressor(sm_system()); printf("op %d oab_new ok=%d\n", opno, oabd != NULL); }
  else if (!strcmp(o, "oab_param") && n >= 3) { st = oabd ? oabd->set_param(oabd, atoi(t[1]), atoi(t[2])) : -1; printf("op %d oab_param st=%d\n", opno, st); }
  else if (!strcmp(o, "oab_decompress") && n >= 3) { struct mfile *f = sm_file(t[1], 0); if (!oabd) return; st = oabd->decompress(oabd, f ? f->name : "nonexistent", t[2]); printf("op %d oab_decompress st=%d\n", opno, st); show_out(t[2]); }
  else if (!strcmp(o, "oab_incr") && n >= 4) { struct mfile *f = sm_file(t[1], 0), *b = sm_file(t[2], 0); if (!oabd) return;
    st = oabd->decompress_incremental(oabd, f ? f->name : "nonexistent", b ? b->name : "nonexistent", t[3]); printf("op %d oab_incr st=%d\n", opno, st); show_out(t[3]); }
  else if (!strcmp(o, "oab_destroy")) { if (oabd) mspack_destroy_oab_decompressor(oabd); oabd = NULL; printf("op %d oab_destroy\n", opno); }
  else { printf("op %d unknown %s\n", opno, o); return; }
  /* work accounting for this op */
  printf("work edges=%llu", cov_edges - e0);
  { int k; for (k = 0; k < K_NKINDS; k++) if (calls[k] != c0[k]) printf(" %s=%ld", kind_names[k], calls[k] - c0[k]); }
  printf("\n");
}

int scn_main(int argc, char **argv) {
  static char line[1 << 26]; char *t[8]; int n; char *p;
  int timeout = argc > 2 ? atoi(argv[2]) : 20;
  (void) argc; (void) argv;
  signal(SIGALRM, on_alarm);
  sm_reset(); scn_no = 0; opno = 0; printf("BEGIN 0\n"); alarm(timeout);
  while (fgets(line, sizeof line, stdin)) {
    n = 0; for (p = strtok(line, " \n"); p && n < 8; p = strtok(NULL, " \n")) t[n++] = p;
    if (n == 0 || t[0][0] == '#') continue;
    if (!strcmp(t[0], "end")) {
      /* protocol: whatever the scenario left open is released by the client before the ledger is read */
      int i, inst_k;
      save_inst(cur_inst);
      for (inst_k = 0; inst_k < NI; inst_k++) { load_inst(inst_k);
      for (i = 0; i < NV; i++) { if (cabd && cabs[i] && !absorbed[i]) cabd->close(cabd, cabs[i]); if (chmd && chms[i]) chmd->close(chmd, chms[i]);
                                 if (szddd && szdds[i]) szddd->close(szddd, szdds[i]); if (kwajd && kwajs[i]) kwajd->close(kwajd, kwajs[i]); }
      if (cabd) mspack_destroy_cab_decompressor(cabd); if (chmd) mspack_destroy_chm_decompressor(chmd);
      if (szddd) mspack_destroy_szdd_decompressor(szddd); if (kwajd) mspack_destroy_kwaj_decompressor(kwajd); if (oabd) mspack_destroy_oab_decompressor(oabd);
      cabd = NULL; chmd = NULL; szddd = NULL; kwajd = NULL; oabd = NULL;
      memset(cabs, 0, sizeof cabs); memset(absorbed, 0, sizeof absorbed); memset(chms, 0, sizeof chms); memset(szdds, 0, sizeof szdds); memset(kwajs, 0, sizeof kwajs);
      }
      memset(saved, 0, sizeof saved); cur_inst = 0;
      sm_report(); printf("END %d\n", scn_no); fflush(stdout);
      sm_reset(); scn_no++; opno = 0; printf("BEGIN %d\n", scn_no); alarm(timeout);
      continue;
    }
    if (!strcmp(t[0], "file") && n >= 3) {
      struct mfile *f = sm_file(t[1], 1); if (!f) continue;
      free(f->data); f->len = f->cap = 0; f->data = NULL;
      if (strcmp(t[2], "-")) { f->len = unhex(t[2], &f->data); f->cap = f->len + 1; } else { f->data = malloc(1); f->cap = 1; }
    }
    else if (!strcmp(t[0], "sparse") && n >= 5) {      /* sparse NAME SIZE OFFSET HEX : SIZE bytes, zero except HEX at OFFSET */
      struct mfile *f = sm_file(t[1], 1); if (!f) continue;
      free(f->data); f->len = unhex(t[4], &f->data); f->cap = f->len + 1; f->vlen = strtoull(t[2], NULL, 10); f->voff = strtoull(t[3], NULL, 10);
    }
    else if (!strcmp(t[0], "inst") && n >= 2) { int k = atoi(t[1]) & (NI - 1); save_inst(cur_inst); load_inst(k); cur_inst = k; printf("inst %d\n", k); }
    else if (!strcmp(t[0], "fill") && n >= 2) sm_fill = atoi(t[1]) & 255;
    else if (!strcmp(t[0], "trace") && n >= 2) sm_trace = atoi(t[1]);
    else if (!strcmp(t[0], "recycle") && n >= 2) sm_recycle = atoi(t[1]);
    else if (!strcmp(t[0], "hexout") && n >= 2) hexout = atoi(t[1]);
    else if (!strcmp(t[0], "edgecap") && n >= 2) edge_cap = strtoull(t[1], NULL, 10);
    else if (!strcmp(t[0], "fault") && n >= 3 && sm_nfaults < 8) {
      int k; for (k = 0; k < K_NKINDS; k++) if (!strcmp(kind_names[k], t[1])) break;
      if (k < K_NKINDS) { sm_faults[sm_nfaults].kind = k; sm_faults[sm_nfaults].idx = atol(t[2]); sm_faults[sm_nfaults].mode = (n >= 4 && !strcmp(t[3], "short")); sm_nfaults++; }
    }
    else run_op(t, n);
  }
  return 0;
}
