#include "cabd.c"
/* accessors for static functions */
unsigned int u_cabd_checksum(unsigned char *data, unsigned int bytes, unsigned int cksum) { return cabd_checksum(data, bytes, cksum); }
