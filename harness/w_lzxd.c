#include "lzxd.c"
