#include "szddd.c"
