/* instrumented in-memory mspack_system: ledger, callback-contract monitor, fault plan, fill pattern */
#ifndef SYSMON_H
#define SYSMON_H
#include <stddef.h>
#include <sys/types.h>
#include <mspack.h>

#define MAXFILES 64
struct mfile { char name[80]; unsigned char *data; size_t len, cap; int used;
               size_t vlen, voff; };   /* vlen != 0: a sparse read-only file of vlen bytes, zero except for data[0..len) at offset voff */
extern struct mfile mfiles[MAXFILES];
extern int nmfiles;

enum { K_OPEN = 0, K_READ, K_WRITE, K_SEEK, K_ALLOC, K_TELL, K_CLOSE, K_FREE, K_COPY, K_MSG, K_NKINDS };
extern const char *kind_names[K_NKINDS];
extern long calls[K_NKINDS];          /* calls of each kind since sm_reset() */
extern long faults_hit;               /* how many planned faults fired */
extern int  sm_trace;                 /* print one line per callback */
extern int  sm_recycle;               /* freed blocks are reused, contents untouched */
extern int  sm_fill;                  /* byte used to pre-fill alloc()ed memory */
extern long sm_viol;                  /* number of contract / ledger violations seen */
extern long sm_written_total;         /* bytes accepted by write() since reset */

/* fault plan: up to 8 entries; entry fires on the idx-th (0-based) call of that kind */
struct fault { int kind; long idx; int mode; };   /* mode: 0 = error return, 1 = short (write: n-1 bytes, read: not used) */
extern struct fault sm_faults[8]; extern int sm_nfaults;

struct mspack_system *sm_system(void);
void sm_reset(void);                                  /* clears files, ledger, counters, plan */
struct mfile *sm_file(const char *name, int create);  /* look up / create in-memory file */
void sm_report(void);                                 /* prints ledger + violations summary, frees leftovers */
void sm_violation(const char *fmt, ...);
long sm_live_allocs(void); long sm_open_handles(void);
#endif
