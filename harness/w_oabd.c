#include "oabd.c"
