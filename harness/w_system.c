#include "system.c"
