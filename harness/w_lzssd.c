#include "lzssd.c"
