/* unit engines: one case per input line, one result per output line */
#include <stdio.h>
#include <stdlib.h>
#include <string.h>
#include <system.h>
#include <lzss.h>
#include <lzx.h>
#include <qtm.h>
#include <mszip.h>
extern unsigned int u_cabd_checksum(unsigned char *data, unsigned int bytes, unsigned int cksum);

struct mem { unsigned char *d; size_t len, pos, cap; };
static int m_read(struct mspack_file *f, void *buf, int n) { struct mem *m = (struct mem *) f; size_t k = m->len - m->pos; if ((size_t) n < k) k = n; memcpy(buf, m->d + m->pos, k); m->pos += k; return (int) k; }
static int m_write(struct mspack_file *f, void *buf, int n) { struct mem *m = (struct mem *) f;
  if (m->len + n > m->cap) { m->cap = 2 * (m->len + n) + 64; m->d = realloc(m->d, m->cap); } memcpy(m->d + m->len, buf, n); m->len += n; return n; }
static int fillbyte = 0xAA;
static void *m_alloc(struct mspack_system *s, size_t n) { void *p = malloc(n ? n : 1); (void) s; if (p) memset(p, fillbyte, n); return p; }
static void m_free(void *p) { free(p); }
static void m_copy(void *s, void *d, size_t n) { memcpy(d, s, n); }
static void m_msg(struct mspack_file *f, const char *fmt, ...) { (void) f; (void) fmt; }
static struct mspack_system usys;
static size_t unhex(const char *h, unsigned char **out) { size_t n = strlen(h) / 2, i; *out = malloc(n + 1);
  for (i = 0; i < n; i++) { unsigned v; sscanf(h + 2 * i, "%2x", &v); (*out)[i] = v; } return n; }
static void hexs(const unsigned char *p, size_t n) { size_t i; for (i = 0; i < n; i++) printf("%02x", p[i]); }
static char line[1 << 26];
static int toks(char **t, int max) { int k = 0; char *p; for (p = strtok(line, " \n"); p && k < max; p = strtok(NULL, " \n")) t[k++] = p; return k; }

int unit_main(int argc, char **argv) {
  const char *eng = argv[1]; int bufsize = argc > 2 ? atoi(argv[2]) : 4096; char *t[10]; int k;
  usys.read = m_read; usys.write = m_write; usys.alloc = m_alloc; usys.free = m_free; usys.copy = m_copy; usys.message = m_msg;
  if (argc > 3) fillbyte = atoi(argv[3]);
  while (fgets(line, sizeof line, stdin)) {
    k = toks(t, 10); if (k == 0) continue;
    if (!strcmp(eng, "cksum")) {             /* seed hex|-  -> checksum */
      unsigned char *d; size_t n; if (k < 2) continue; n = strcmp(t[1], "-") ? unhex(t[1], &d) : (d = malloc(1), 0);
      printf("%u\n", u_cabd_checksum(d, (unsigned int) n, (unsigned int) strtoul(t[0], NULL, 10))); free(d);
    }
    else if (!strcmp(eng, "lzss")) {         /* mode hex|- -> status outhex */
      struct mem in = {0}, out = {0}; int st; if (k < 2) continue;
      in.len = strcmp(t[1], "-") ? unhex(t[1], &in.d) : (in.d = malloc(1), 0);
      st = lzss_decompress(&usys, (struct mspack_file *) &in, (struct mspack_file *) &out, bufsize, atoi(t[0]));
      printf("%d ", st); hexs(out.d, out.len); printf("\n"); free(in.d); free(out.d);
    }
    else if (!strcmp(eng, "mszip")) {        /* repair reqs(comma) hex|- -> statuses outhex */
      struct mem in = {0}, out = {0}; struct mszipd_stream *z; char *p; int first = 1; if (k < 3) continue;
      in.len = strcmp(t[2], "-") ? unhex(t[2], &in.d) : (in.d = malloc(1), 0);
      z = mszipd_init(&usys, (struct mspack_file *) &in, (struct mspack_file *) &out, bufsize, atoi(t[0]));
      if (!z) { printf("INITFAIL\n"); free(in.d); continue; }
      for (p = strtok(t[1], ","); p; p = strtok(NULL, ",")) { printf(first ? "%d" : ",%d", mszipd_decompress(z, atol(p))); first = 0; }
      printf(" "); hexs(out.d, out.len); printf("\n"); mszipd_free(z); free(in.d); free(out.d);
    }
    else if (!strcmp(eng, "lzx")) {          /* wbits reset outlen delta refhex|- reqs hex|- */
      struct mem in = {0}, out = {0}, ref = {0}; struct lzxd_stream *z; char *p; int first = 1; if (k < 7) continue;
      in.len = strcmp(t[6], "-") ? unhex(t[6], &in.d) : (in.d = malloc(1), 0);
      z = lzxd_init(&usys, (struct mspack_file *) &in, (struct mspack_file *) &out, atoi(t[0]), atoi(t[1]), bufsize, atol(t[2]), (char) atoi(t[3]));
      if (!z) { printf("INITFAIL\n"); free(in.d); continue; }
      if (strcmp(t[4], "-")) { ref.len = unhex(t[4], &ref.d); lzxd_set_reference_data(z, &usys, (struct mspack_file *) &ref, ref.len); }
      for (p = strtok(t[5], ","); p; p = strtok(NULL, ",")) { printf(first ? "%d" : ",%d", lzxd_decompress(z, atol(p))); first = 0; }
      printf(" "); hexs(out.d, out.len); printf("\n"); lzxd_free(z); free(in.d); free(out.d); free(ref.d);
    }
    else if (!strcmp(eng, "qtm")) {          /* wbits reqs hex|- */
      struct mem in = {0}, out = {0}; struct qtmd_stream *z; char *p; int first = 1; if (k < 3) continue;
      in.len = strcmp(t[2], "-") ? unhex(t[2], &in.d) : (in.d = malloc(1), 0);
      z = qtmd_init(&usys, (struct mspack_file *) &in, (struct mspack_file *) &out, atoi(t[0]), bufsize);
      if (!z) { printf("INITFAIL\n"); free(in.d); continue; }
      for (p = strtok(t[1], ","); p; p = strtok(NULL, ",")) { printf(first ? "%d" : ",%d", qtmd_decompress(z, atol(p))); first = 0; }
      printf(" "); hexs(out.d, out.len); printf("\n"); qtmd_free(z); free(in.d); free(out.d);
    }
    else { fprintf(stderr, "unknown engine %s\n", eng); return 2; }
    fflush(stdout);
  }
  return 0;
}
