#include "crc32.c"
