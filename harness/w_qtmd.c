#include "qtmd.c"
