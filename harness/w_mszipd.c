#include "mszipd.c"
