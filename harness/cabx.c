/* wrapper unit around cabextract.c: its static functions are reached by including the source with main renamed */
#define main cabx_real_main
#include "src/cabextract.c"
#undef main
#include <stdio.h>
static size_t cx_unhex(const char *h, unsigned char *out) { size_t n = strlen(h) / 2, i; for (i = 0; i < n; i++) { unsigned v; sscanf(h + 2 * i, "%2x", &v); out[i] = v; } out[n] = 0; return n; }
int main(int argc, char **argv) {
  static char line[8192]; unsigned char name[2048];
  if (argc < 2 || strcmp(argv[1], "outname")) { fprintf(stderr, "usage: cabx_drv outname\n"); return 2; }
  while (fgets(line, sizeof line, stdin)) {
    int lower, isunix, utf8; char hex[4200]; char *r; size_t i, n;
    if (sscanf(line, "%d %d %d %4199s", &lower, &isunix, &utf8, hex) != 4) continue;
    cx_unhex(hex, name);
    r = create_output_name((char *) name, "d", lower, isunix, utf8);
    if (!r) { printf("NULL\n"); continue; }
    n = strlen(r);
    if (n < 2 || r[0] != 'd' || r[1] != '/') printf("BADPREFIX ");
    if (n == 2) printf("-");
    for (i = 2; i < n; i++) printf("%02x", (unsigned char) r[i]);
    printf("\n"); fflush(stdout); free(r);
  }
  return 0;
}
