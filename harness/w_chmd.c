#include "chmd.c"
