#include "kwajd.c"
